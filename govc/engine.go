package main

import (
	"fmt"
	"path/filepath"
	"regexp"
	"go/types"
	"os"
	"sort"
	"strings"

	"golang.org/x/tools/go/packages"
	"golang.org/x/tools/go/ssa"
	"golang.org/x/tools/go/ssa/ssautil"
)

// Engine holds the loaded program (always built from the current working
// tree of the repository) and the contracts read from the //@ comment files.
type Engine struct {
	repo   string
	pkgs   []*packages.Package
	prog   *ssa.Program
	spkgs  []*ssa.Package
	funcs  map[string]*ssa.Function // key: funcKey
	byPkg  map[string]*packages.Package
	sccOf  map[*ssa.Function]int
	regOnly map[*ssa.Function]bool
	regShown bool
	ctrs   map[string]*Contract // key: funcKey
	specs  map[string]*SpecFunc // spec functions (global namespace)
	axioms []*Axiom
	oldset map[*ssa.Function]map[string]bool
	ctrSrc []string // contract files read
	modset map[*ssa.Function]map[string]bool
	// theories: contracts for functions outside the repo (assumed)
	ext map[string]*Contract
	ghosts map[string]*GhostDecl
	guarded map[string]string
	needPrivate map[privKey]bool
	needNode map[privKey]bool
	sentParamSet map[string]bool
	nilParamSet  map[string]bool
	sweepCtrs map[*ssa.Function]*Contract
	writtenKeys map[string]bool // struct-field heap keys stored to through a pointer that is not a fresh allocation of the storing function
	pkgSpecs map[string]map[string]*SpecFunc
	readonly map[string]*ReadonlyGlobal
	// counters
	warnings []string
}

const repoMod = "github.com/go-critic/go-critic"

func shortPkg(path string) string {
	if strings.HasPrefix(path, repoMod+"/") {
		return path[len(repoMod)+1:]
	}
	return path
}

// funcKey gives a stable name: <short pkg path>.<RelString>, e.g.
// linter.(*Checker).Check, cmd/go-critic.(*program).initCheckers$1
func funcKey(f *ssa.Function) string {
	if f == nil {
		return "<nil>"
	}
	if f.Pkg == nil {
		// synthetic wrappers / instantiations / external methods
		if o := f.Object(); o != nil && o.Pkg() != nil {
			return shortPkg(o.Pkg().Path()) + "." + f.RelString(o.Pkg())
		}
		if f.Parent() != nil {
			return funcKey(f.Parent()) + "$anon"
		}
		return f.String()
	}
	name := f.RelString(f.Pkg.Pkg)
	// init functions are numbered by file order (init#57): name them by their source file instead,
	// so that adding an unrelated file does not re-target contracts
	if m := initRe.FindStringSubmatch(name); m != nil && f.Prog != nil {
		root := f
		for root.Parent() != nil {
			root = root.Parent()
		}
		if pos := root.Pos(); pos.IsValid() {
			file := filepath.Base(f.Prog.Fset.Position(pos).Filename)
			name = "init@" + file + m[2]
		}
	}
	return shortPkg(f.Pkg.Pkg.Path()) + "." + name
}

var initRe = regexp.MustCompile(`^init#(\d+)(.*)$`)

func loadEngine(repo string, patterns []string) (*Engine, error) {
	cfg := &packages.Config{
		Mode:       packages.LoadAllSyntax,
		Dir:        repo,
		BuildFlags: []string{"-tags=verif"},
		Env:        append(os.Environ(), "GOFLAGS=-mod=mod", "GOPROXY=off", "GOSUMDB=off", "GOTOOLCHAIN=local"),
	}
	pkgs, err := packages.Load(cfg, patterns...)
	if err != nil {
		return nil, err
	}
	nerr := 0
	packages.Visit(pkgs, nil, func(p *packages.Package) {
		for _, e := range p.Errors {
			if strings.HasPrefix(p.PkgPath, repoMod) {
				fmt.Fprintf(os.Stderr, "load error: %s: %v\n", p.PkgPath, e)
				nerr++
			}
		}
	})
	if nerr > 0 {
		return nil, fmt.Errorf("%d load errors in repository packages", nerr)
	}
	prog, spkgs := ssautil.AllPackages(pkgs, ssa.GlobalDebug)
	prog.Build()
	e := &Engine{
		repo:   repo,
		pkgs:   pkgs,
		prog:   prog,
		spkgs:  spkgs,
		funcs:  map[string]*ssa.Function{},
		byPkg:  map[string]*packages.Package{},
		ctrs:   map[string]*Contract{},
		specs:  map[string]*SpecFunc{},
		ext:    map[string]*Contract{},
		modset: map[*ssa.Function]map[string]bool{},
	}
	packages.Visit(pkgs, nil, func(p *packages.Package) { e.byPkg[p.PkgPath] = p })
	for _, sp := range prog.AllPackages() {
		if sp == nil || sp.Pkg == nil || !strings.HasPrefix(sp.Pkg.Path(), repoMod) {
			continue
		}
		for _, m := range sp.Members {
			switch m := m.(type) {
			case *ssa.Function:
				e.addFunc(m)
			case *ssa.Type:
				e.addMethods(m.Type())
				e.addMethods(types.NewPointer(m.Type()))
			}
		}
	}
	return e, nil
}

func (e *Engine) addMethods(t types.Type) {
	ms := e.prog.MethodSets.MethodSet(t)
	for i := 0; i < ms.Len(); i++ {
		f := e.prog.MethodValue(ms.At(i))
		if f != nil && f.Pkg != nil && f.Synthetic == "" {
			e.addFunc(f)
		}
	}
}

func (e *Engine) addFunc(f *ssa.Function) {
	k := funcKey(f)
	if _, ok := e.funcs[k]; ok {
		return
	}
	e.funcs[k] = f
	for _, a := range f.AnonFuncs {
		e.addFunc(a)
	}
}

func (e *Engine) sortedFuncKeys() []string {
	ks := make([]string, 0, len(e.funcs))
	for k := range e.funcs {
		ks = append(ks, k)
	}
	sort.Strings(ks)
	return ks
}

func (e *Engine) inRepo(f *ssa.Function) bool {
	if f == nil {
		return false
	}
	if f.Pkg != nil {
		return strings.HasPrefix(f.Pkg.Pkg.Path(), repoMod)
	}
	if f.Parent() != nil {
		return e.inRepo(f.Parent())
	}
	if o := f.Object(); o != nil && o.Pkg() != nil {
		return strings.HasPrefix(o.Pkg().Path(), repoMod)
	}
	return false
}

// extKey names a function outside the repository for theory lookup:
// strings.HasPrefix, (*go/ast.CallExpr).Pos, go/types.Type.Underlying
func extKey(f *ssa.Function) string {
	if f == nil {
		return ""
	}
	if o := f.Object(); o != nil && o.Pkg() != nil {
		return o.Pkg().Path() + "." + f.RelString(o.Pkg())
	}
	return f.String()
}

// computeWrittenKeys scans every repository function: a field key that is only ever stored to through
// objects the storing function allocated itself is "write-once at construction"; its value on existing
// objects cannot be changed by any call (used to keep facts about configuration fields across calls).
func (e *Engine) computeWrittenKeys() {
	e.writtenKeys = map[string]bool{}
	st := newSortTable()
	var rootIsFresh func(v ssa.Value, depth int) bool
	rootIsFresh = func(v ssa.Value, depth int) bool {
		if depth > 6 {
			return false
		}
		switch v := v.(type) {
		case *ssa.Alloc:
			return true
		case *ssa.FieldAddr:
			return rootIsFresh(v.X, depth+1)
		case *ssa.IndexAddr:
			return rootIsFresh(v.X, depth+1)
		}
		return false
	}
	for _, k := range e.sortedFuncKeys() {
		fn := e.funcs[k]
		for _, b := range fn.Blocks {
			for _, ins := range b.Instrs {
				switch ins := ins.(type) {
				case *ssa.Store:
					fa, ok := ins.Addr.(*ssa.FieldAddr)
					if !ok {
						// whole-struct store through a pointer: every field of that struct type
						if pt, ok := ins.Addr.Type().Underlying().(*types.Pointer); ok {
							if _, isS := structOf(pt.Elem()); isS && !rootIsFresh(ins.Addr, 0) {
								for _, fk := range allFieldKeys(st, pt.Elem()) {
									e.writtenKeys[fk] = true
								}
							}
						}
						continue
					}
					if rootIsFresh(fa.X, 0) {
						continue
					}
					pt := fa.X.Type().Underlying().(*types.Pointer).Elem()
					s, _ := structOf(pt)
					f := s.Field(fa.Field)
					if _, inner := structOf(f.Type()); inner {
						for _, fk := range allFieldKeys(st, f.Type()) {
							e.writtenKeys[fk] = true
						}
					} else {
						e.writtenKeys[fieldKey(st.structName(pt), f.Name())] = true
					}
				case ssa.CallInstruction:
					// the address of a field handed to a call: the callee may write it
					for _, a := range ins.Common().Args {
						if fa, ok := a.(*ssa.FieldAddr); ok && !rootIsFresh(fa.X, 0) {
							pt := fa.X.Type().Underlying().(*types.Pointer).Elem()
							s, _ := structOf(pt)
							f := s.Field(fa.Field)
							if _, inner := structOf(f.Type()); inner {
								for _, fk := range allFieldKeys(st, f.Type()) {
									e.writtenKeys[fk] = true
								}
							} else {
								e.writtenKeys[fieldKey(st.structName(pt), f.Name())] = true
							}
						}
					}
				}
			}
		}
	}
}
