package main

import (
	"go/constant"
	"go/token"
	"sort"

	"golang.org/x/tools/go/ssa"
)

// staticCallGraph: static callees, closures created, and bound methods (x.m used as a value), per function.
func staticCallGraph(e *Engine) map[*ssa.Function][]*ssa.Function {
	out := map[*ssa.Function][]*ssa.Function{}
	for _, k := range e.sortedFuncKeys() {
		fn := e.funcs[k]
		seen := map[*ssa.Function]bool{}
		add := func(t *ssa.Function) {
			if t != nil && !seen[t] {
				seen[t] = true
				out[fn] = append(out[fn], t)
			}
		}
		for _, b := range fn.Blocks {
			for _, ins := range b.Instrs {
				switch ins := ins.(type) {
				case ssa.CallInstruction:
					add(ins.Common().StaticCallee())
				case *ssa.MakeClosure:
					if t, ok := ins.Fn.(*ssa.Function); ok {
						add(t)
					}
				}
				var ops []*ssa.Value
				for _, op := range ins.Operands(ops) {
					if op == nil || *op == nil {
						continue
					}
					if t, ok := (*op).(*ssa.Function); ok {
						add(t)
					}
				}
			}
		}
	}
	return out
}

// recursiveFunctions returns the functions that lie on a cycle of the static call graph, grouped by cycle (SCC).
func recursiveFunctions(e *Engine) [][]*ssa.Function {
	g := staticCallGraph(e)
	index := map[*ssa.Function]int{}
	low := map[*ssa.Function]int{}
	on := map[*ssa.Function]bool{}
	var stack []*ssa.Function
	var sccs [][]*ssa.Function
	n := 0
	var strong func(v *ssa.Function)
	strong = func(v *ssa.Function) {
		index[v] = n
		low[v] = n
		n++
		stack = append(stack, v)
		on[v] = true
		for _, w := range g[v] {
			if _, ok := e.funcs[funcKey(w)]; !ok {
				continue
			}
			if _, seen := index[w]; !seen {
				strong(w)
				if low[w] < low[v] {
					low[v] = low[w]
				}
			} else if on[w] && index[w] < low[v] {
				low[v] = index[w]
			}
		}
		if low[v] == index[v] {
			var comp []*ssa.Function
			for {
				w := stack[len(stack)-1]
				stack = stack[:len(stack)-1]
				on[w] = false
				comp = append(comp, w)
				if w == v {
					break
				}
			}
			self := false
			for _, w := range g[v] {
				if w == v {
					self = true
				}
			}
			if len(comp) > 1 || self {
				sort.Slice(comp, func(i, j int) bool { return funcKey(comp[i]) < funcKey(comp[j]) })
				sccs = append(sccs, comp)
			}
		}
	}
	for _, k := range e.sortedFuncKeys() {
		if _, seen := index[e.funcs[k]]; !seen {
			strong(e.funcs[k])
		}
	}
	sort.Slice(sccs, func(i, j int) bool { return funcKey(sccs[i][0]) < funcKey(sccs[j][0]) })
	return sccs
}

// sccIndex maps every function on a call-graph cycle to the number of its cycle (computed once).
func (e *Engine) sccIndex() map[*ssa.Function]int {
	if e.sccOf == nil {
		e.sccOf = map[*ssa.Function]int{}
		for i, comp := range recursiveFunctions(e) {
			for _, f := range comp {
				e.sccOf[f] = i + 1
			}
		}
	}
	return e.sccOf
}

func (e *Engine) sameCycle(a, b *ssa.Function) bool {
	m := e.sccIndex()
	return a != nil && b != nil && m[a] != 0 && m[a] == m[b]
}

// ---------------------------------------------------------------------------
// loops: a syntactic termination argument for counting loops (decided on the SSA, no solver)

// countingLoop reports whether the loop headed by `header` is controlled by a comparison between an induction variable
// that every back edge moves strictly towards the bound and a bound that does not change inside the loop.
func countingLoop(header *ssa.BasicBlock, inLoop map[*ssa.BasicBlock]bool) (bool, string) {
	if len(header.Instrs) == 0 {
		return false, "empty header"
	}
	iff, ok := header.Instrs[len(header.Instrs)-1].(*ssa.If)
	if !ok {
		return false, "the loop header does not end in a condition (for { ... })"
	}
	cmp, ok := iff.Cond.(*ssa.BinOp)
	if !ok {
		return false, "the loop condition is not a comparison"
	}
	try := func(iv, bound ssa.Value, op token.Token) (bool, string) {
		phi, ok := iv.(*ssa.Phi)
		if !ok || phi.Block() != header {
			return false, "the compared value is not a loop-carried variable"
		}
		if !loopInvariant(bound, inLoop, 0) {
			return false, "the bound may change inside the loop"
		}
		lo, hi := 1<<30, -(1 << 30)
		n := 0
		for i, pred := range header.Preds {
			if !inLoop[pred] {
				continue
			}
			n++
			l, h, ok := stepRange(phi.Edges[i], phi, 0)
			if !ok {
				return false, "a back edge changes the loop variable by something other than a constant step"
			}
			if l < lo {
				lo = l
			}
			if h > hi {
				hi = h
			}
		}
		if n == 0 {
			return false, "no back edge"
		}
		switch op {
		case token.LSS, token.LEQ:
			if lo >= 1 {
				return true, ""
			}
			return false, "the loop variable does not strictly increase on every back edge"
		case token.GTR, token.GEQ:
			if hi <= -1 {
				return true, ""
			}
			return false, "the loop variable does not strictly decrease on every back edge"
		}
		return false, "comparison " + op.String() + " gives no bound"
	}
	if ok, _ := try(cmp.X, cmp.Y, cmp.Op); ok {
		return true, ""
	}
	flip := map[token.Token]token.Token{token.LSS: token.GTR, token.LEQ: token.GEQ, token.GTR: token.LSS, token.GEQ: token.LEQ}
	if f, has := flip[cmp.Op]; has {
		if ok, _ := try(cmp.Y, cmp.X, f); ok {
			return true, ""
		}
	}
	_, why := try(cmp.X, cmp.Y, cmp.Op)
	return false, why
}

// stepRange: v == phi + d for some constant d in [lo, hi]
func stepRange(v ssa.Value, phi *ssa.Phi, depth int) (int, int, bool) {
	if v == phi {
		return 0, 0, true
	}
	if depth > 8 {
		return 0, 0, false
	}
	switch v := v.(type) {
	case *ssa.BinOp:
		c, ok := v.Y.(*ssa.Const)
		if !ok || c.Value == nil || (v.Op != token.ADD && v.Op != token.SUB) {
			return 0, 0, false
		}
		d, exact := constant.Int64Val(constant.ToInt(c.Value))
		if !exact || d > 1<<20 || d < -(1<<20) {
			return 0, 0, false
		}
		if v.Op == token.SUB {
			d = -d
		}
		l, h, ok := stepRange(v.X, phi, depth+1)
		return l + int(d), h + int(d), ok
	case *ssa.Phi:
		lo, hi := 1<<30, -(1 << 30)
		for _, e := range v.Edges {
			l, h, ok := stepRange(e, phi, depth+1)
			if !ok {
				return 0, 0, false
			}
			if l < lo {
				lo = l
			}
			if h > hi {
				hi = h
			}
		}
		return lo, hi, true
	}
	return 0, 0, false
}

// pure observers of go/types objects: same receiver, same answer
var pureObservers = map[string]bool{"NumFields": true, "NumMethods": true, "Len": true, "NumExplicitMethods": true, "NumEmbeddeds": true}

func loopInvariant(v ssa.Value, inLoop map[*ssa.BasicBlock]bool, depth int) bool {
	if depth > 8 {
		return false
	}
	switch v := v.(type) {
	case *ssa.Const, *ssa.Parameter, *ssa.FreeVar, *ssa.Global, *ssa.Function:
		return true
	case ssa.Instruction:
		if !inLoop[v.Block()] {
			return true
		}
		switch v := v.(type) {
		case *ssa.BinOp:
			return loopInvariant(v.X, inLoop, depth+1) && loopInvariant(v.Y, inLoop, depth+1)
		case *ssa.Field:
			return loopInvariant(v.X, inLoop, depth+1)
		case *ssa.Convert:
			return loopInvariant(v.X, inLoop, depth+1)
		case *ssa.ChangeType:
			return loopInvariant(v.X, inLoop, depth+1)
		case *ssa.UnOp:
			// a load from a local that is written once, before the loop (a spilled parameter or local struct)
			if v.Op == token.MUL {
				root := v.X
				for {
					if fa, ok := root.(*ssa.FieldAddr); ok {
						root = fa.X
						continue
					}
					break
				}
				if al, ok := root.(*ssa.Alloc); ok {
					return allocWrittenOnlyBefore(al, inLoop)
				}
			}
		case *ssa.Call:
			cm := v.Common()
			if b, ok := cm.Value.(*ssa.Builtin); ok && (b.Name() == "len" || b.Name() == "cap") && len(cm.Args) == 1 {
				return loopInvariant(cm.Args[0], inLoop, depth+1)
			}
			if f := cm.StaticCallee(); f != nil && f.Pkg != nil && f.Pkg.Pkg.Path() == "go/types" && pureObservers[f.Name()] && len(cm.Args) == 1 {
				return loopInvariant(cm.Args[0], inLoop, depth+1)
			}
		}
	}
	return false
}

// allocWrittenOnlyBefore: the local is stored to only outside the loop and its address (or a field's address) is used for
// loads only - it never escapes to a call, a closure or another store
func allocWrittenOnlyBefore(al *ssa.Alloc, inLoop map[*ssa.BasicBlock]bool) bool {
	var onlyLoads func(addr ssa.Value, top bool) bool
	onlyLoads = func(addr ssa.Value, top bool) bool {
		refs := addr.Referrers()
		if refs == nil {
			return false
		}
		for _, r := range *refs {
			switch r := r.(type) {
			case *ssa.UnOp:
				if r.Op != token.MUL {
					return false
				}
			case *ssa.FieldAddr:
				if !onlyLoads(r, false) {
					return false
				}
			case *ssa.Store:
				if r.Addr != addr || !top || inLoop[r.Block()] {
					return false
				}
			case *ssa.DebugRef:
			default:
				return false
			}
		}
		return true
	}
	return onlyLoads(al, true)
}
