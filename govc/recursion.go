package main

import (
	"sort"

	"golang.org/x/tools/go/ssa"
)

// staticCallGraph: static callees, closures created, and bound methods (x.m used as a value), per function.
func staticCallGraph(e *Engine) map[*ssa.Function][]*ssa.Function {
	out := map[*ssa.Function][]*ssa.Function{}
	for _, k := range e.sortedFuncKeys() {
		fn := e.funcs[k]
		seen := map[*ssa.Function]bool{}
		add := func(t *ssa.Function) {
			if t != nil && !seen[t] {
				seen[t] = true
				out[fn] = append(out[fn], t)
			}
		}
		for _, b := range fn.Blocks {
			for _, ins := range b.Instrs {
				switch ins := ins.(type) {
				case ssa.CallInstruction:
					add(ins.Common().StaticCallee())
				case *ssa.MakeClosure:
					if t, ok := ins.Fn.(*ssa.Function); ok {
						add(t)
					}
				}
				var ops []*ssa.Value
				for _, op := range ins.Operands(ops) {
					if op == nil || *op == nil {
						continue
					}
					if t, ok := (*op).(*ssa.Function); ok {
						add(t)
					}
				}
			}
		}
	}
	return out
}

// recursiveFunctions returns the functions that lie on a cycle of the static call graph, grouped by cycle (SCC).
func recursiveFunctions(e *Engine) [][]*ssa.Function {
	g := staticCallGraph(e)
	index := map[*ssa.Function]int{}
	low := map[*ssa.Function]int{}
	on := map[*ssa.Function]bool{}
	var stack []*ssa.Function
	var sccs [][]*ssa.Function
	n := 0
	var strong func(v *ssa.Function)
	strong = func(v *ssa.Function) {
		index[v] = n
		low[v] = n
		n++
		stack = append(stack, v)
		on[v] = true
		for _, w := range g[v] {
			if _, ok := e.funcs[funcKey(w)]; !ok {
				continue
			}
			if _, seen := index[w]; !seen {
				strong(w)
				if low[w] < low[v] {
					low[v] = low[w]
				}
			} else if on[w] && index[w] < low[v] {
				low[v] = index[w]
			}
		}
		if low[v] == index[v] {
			var comp []*ssa.Function
			for {
				w := stack[len(stack)-1]
				stack = stack[:len(stack)-1]
				on[w] = false
				comp = append(comp, w)
				if w == v {
					break
				}
			}
			self := false
			for _, w := range g[v] {
				if w == v {
					self = true
				}
			}
			if len(comp) > 1 || self {
				sort.Slice(comp, func(i, j int) bool { return funcKey(comp[i]) < funcKey(comp[j]) })
				sccs = append(sccs, comp)
			}
		}
	}
	for _, k := range e.sortedFuncKeys() {
		if _, seen := index[e.funcs[k]]; !seen {
			strong(e.funcs[k])
		}
	}
	sort.Slice(sccs, func(i, j int) bool { return funcKey(sccs[i][0]) < funcKey(sccs[j][0]) })
	return sccs
}

// sccIndex maps every function on a call-graph cycle to the number of its cycle (computed once).
func (e *Engine) sccIndex() map[*ssa.Function]int {
	if e.sccOf == nil {
		e.sccOf = map[*ssa.Function]int{}
		for i, comp := range recursiveFunctions(e) {
			for _, f := range comp {
				e.sccOf[f] = i + 1
			}
		}
	}
	return e.sccOf
}

func (e *Engine) sameCycle(a, b *ssa.Function) bool {
	m := e.sccIndex()
	return a != nil && b != nil && m[a] != 0 && m[a] == m[b]
}
