package main

import (
	"fmt"
	"go/constant"
	"go/token"
	"go/types"
	"strings"

	"golang.org/x/tools/go/ssa"
)

// C07 Warn-site sweep (DESIGN §7 C07): at every call of CheckerContext.Warn / WarnFixable / WarnWithPos /
// WarnFixableWithPos in the checker packages
//   (1) the node that gives the diagnostic its position is non-nil (interface and payload) and is not a node the
//       function built itself with a composite literal (such a node has no position); copies made by astcopy keep
//       their positions and are accepted;
//   (2) the format string is a constant, and the number of formatting verbs equals the number of arguments
//       (decided syntactically on the SSA - a non-constant format can turn source text into '%!d(MISSING)' artefacts);
//   (3) every syntax-node argument that is formatted into the message is non-nil.

func isWarnFunc(f *ssa.Function) (nodeArg, fmtArg int, ok bool) {
	if f == nil || f.Signature.Recv() == nil || !strings.HasSuffix(f.Signature.Recv().Type().String(), "linter.CheckerContext") {
		return 0, 0, false
	}
	switch f.Name() {
	case "Warn":
		return 1, 2, true
	case "WarnFixable":
		return 1, 3, true
	case "WarnWithPos":
		return -1, 2, true
	case "WarnFixableWithPos":
		return -1, 3, true
	}
	return 0, 0, false
}

func countVerbs(format string) int {
	n := 0
	for i := 0; i < len(format); i++ {
		if format[i] != '%' {
			continue
		}
		i++
		if i < len(format) && format[i] == '%' {
			continue
		}
		// flags, width, precision
		for i < len(format) && strings.ContainsRune("+-# 0123456789.*[]", rune(format[i])) {
			i++
		}
		n++
	}
	return n
}

func init() {
	registerHook("C07", func(c *checkCtx) {
		c.useLedger = true
		// (new undischarged obligations are reported when the solvers refute them in a function the ledger had entirely proved,
		// like in the safety sweep; a blanket "anything new must discharge" alarmed on harmless refactorings)
		c.strictNew = false
		c.provedLedger = loadLedger("C07", "proved")
		c.frontierLedger = loadLedger("C07", "frontier")
		sites := 0
		for _, k := range c.e.sortedFuncKeys() {
			if !strings.HasPrefix(k, "checkers.") {
				continue
			}
			fn := c.e.funcs[k]
			has := false
			for _, b := range fn.Blocks {
				for _, ins := range b.Instrs {
					if call, ok := ins.(ssa.CallInstruction); ok {
						callee := call.Common().StaticCallee()
						if _, _, w := isWarnFunc(callee); w {
							has = true
						}
						if callee != nil {
							for j := range callee.Params {
								if c.e.needNode[privKey{callee, j}] {
									has = true
								}
							}
						}
					}
				}
			}
			if !has {
				continue
			}
			ctr := c.e.ctrs[k]
			if ctr == nil {
				ctr = c.e.sweepContract(fn, "C07")
			} else {
				cp := *ctr
				cp.Requires = append(append([]*Clause{}, ctr.Requires...), c.e.sweepContract(fn, "C07").Requires...)
				ctr = &cp
			}
			nsite := 0
			g := c.e.verifyWith(fn, ctr, &genOptions{safety: false}, func(g *gen) {
				g.astValid = true
				g.options.safety = false
				g.onCall = func(g *gen, cc *ssa.CallCommon, callee *ssa.Function, args []Val, pos token.Pos) {
					nodeArg, fmtArg, ok := isWarnFunc(callee)
					if !ok {
						// a helper that positions a diagnostic at one of its parameters assumes that parameter to be a node of the
						// tree (nodeRequires); every call site shows it
						if callee != nil && c.e.inRepo(callee) && !(walkerEntry[callee.Name()] && callee.Signature.Recv() != nil) {
							for j, p := range callee.Params {
								if !c.e.needNode[privKey{callee, j}] || j >= len(args) || p.Name() == "" || p.Name() == "_" {
									continue
								}
								n := args[j]
								g.declareFun("private", []string{"Int"}, "Bool")
								g.declTnode()
								v := n.T
								var nonnil string
								if n.Sort == "Iface" {
									v = app("i_val", n.T)
									nonnil = and(not(eq(app("i_tag", n.T), "0")), not(eq(v, "0")))
								} else if n.Sort == "Int" {
									nonnil = not(eq(v, "0"))
								} else {
									continue
								}
								claim := and(nonnil, or(app("tnode", v), app("private", v)))
								site := g.label(pos, callee.Name(), "call")
								if len(site) > 60 {
									site = site[:60] + "…"
								}
								g.oblige("call/"+callee.Name()+"/pre", "warn-node-"+p.Name()+": "+site, claim, pos, nil)
							}
						}
						return
					}
					nsite++
					site := g.label(pos, callee.Name(), "call")
					if len(site) > 60 {
						site = site[:60] + "…"
					}
					if nodeArg >= 0 && nodeArg < len(args) {
						n := args[nodeArg]
						if n.Sort == "Iface" {
							g.declareFun("private", []string{"Int"}, "Bool")
							g.declTnode()
							// a node of the parsed tree or a private copy of one: neither a node the checker built itself nor the
							// all-zero sentinel that astcast.ToX returns on a type mismatch (which was alive at entry but has no position)
							claim := and(not(eq(app("i_tag", n.T), "0")), not(eq(app("i_val", n.T), "0")),
								or(app("tnode", app("i_val", n.T)), app("private", app("i_val", n.T))))
							g.oblige("warn", "position node is a non-nil node of the analysed tree: "+site, claim, pos, nil)
						}
					}
					if nodeArg < 0 && len(cc.Args) >= 2 {
						// WarnWithPos / WarnFixableWithPos: the position is the start of a node or a recorded token position
						okPos, why := posProvenance(c.e, cc.Args[1], map[ssa.Value]bool{}, 0)
						o := g.oblige("warn", "explicit position is the start of a node or a token position of the tree: "+site, "true", pos, nil)
						if !okPos {
							o.Claim = "false"
							o.Extra = []string{"; " + why}
						}
					}
					// format constant, verbs vs arguments
					if fmtArg < len(cc.Args) {
						fc, isConst := cc.Args[fmtArg].(*ssa.Const)
						var nargs = -1
						if fmtArg+1 < len(cc.Args) {
							if ops, ok := varargsOf(cc.Args[fmtArg+1]); ok {
								nargs = len(ops)
								for i, op := range ops {
									if isAstPtr(op.Type()) || isAstIface(op.Type()) {
										v := g.val(op)
										var claim string
										if v.Sort == "Iface" {
											claim = and(not(eq(app("i_tag", v.T), "0")), not(eq(app("i_val", v.T), "0")))
										} else {
											claim = not(eq(v.T, "0"))
										}
										g.oblige("warn", fmt.Sprintf("formatted node argument %d is non-nil: %s", i, site), claim, pos, nil)
									}
								}
							} else if cst, isC := cc.Args[fmtArg+1].(*ssa.Const); isC && cst.Value == nil {
								nargs = 0
							}
						}
						okFmt := isConst && fc.Value != nil
						detail := "format string is not a compile-time constant"
						if okFmt {
							verbs := countVerbs(constant.StringVal(fc.Value))
							if nargs >= 0 && verbs != nargs {
								okFmt = false
								detail = fmt.Sprintf("format %q has %d verbs but %d arguments", constant.StringVal(fc.Value), verbs, nargs)
							} else if nargs < 0 {
								okFmt = false
								detail = "arguments are forwarded as a slice: verb count cannot be checked"
							}
						}
						o := g.oblige("warn", "format is a constant with one verb per argument: "+site, "true", pos, nil)
						if !okFmt {
							o.Claim = "false"
							o.Extra = []string{"; " + detail}
						}
					}
				}
			})
			c.addGenNoCover(g, func(o *Obligation) bool {
				return o.Kind == "warn" || (strings.HasPrefix(o.Kind, "call/") && strings.HasPrefix(o.Label, "warn-node"))
			})
			sites += nsite
		}
		c.extraEv["warn_call_sites"] = sites
	})
}

// posProvenance decides syntactically (on the SSA) whether a token.Pos value is known to be the start of a syntax node or
// a token position recorded in the tree: the result of a Pos() method, a token.Pos field of a go/ast node, a field of a
// local record whose every store holds such a value, a parameter that every static caller supplies with such a value.
// Arithmetic on positions is not accepted: an offset into a node's text is in general not the start of a token.
func posProvenance(e *Engine, v ssa.Value, seen map[ssa.Value]bool, depth int) (bool, string) {
	if seen[v] {
		return true, ""
	}
	seen[v] = true
	if depth > 6 {
		return false, "provenance of the position is too indirect to follow"
	}
	isPos := func(t types.Type) bool {
		n, ok := types.Unalias(t).(*types.Named)
		return ok && n.Obj().Pkg() != nil && n.Obj().Pkg().Path() == "go/token" && n.Obj().Name() == "Pos"
	}
	switch v := v.(type) {
	case *ssa.Call:
		cm := v.Common()
		if cm.IsInvoke() && cm.Method.Name() == "Pos" {
			return true, ""
		}
		if f := cm.StaticCallee(); f != nil && f.Name() == "Pos" && f.Signature.Recv() != nil && isPos(f.Signature.Results().At(0).Type()) {
			return true, ""
		}
		return false, "position is the result of a call of " + cm.String() + ", not of a Pos() method"
	case *ssa.ChangeType:
		return posProvenance(e, v.X, seen, depth)
	case *ssa.Phi:
		for _, ed := range v.Edges {
			if ok, why := posProvenance(e, ed, seen, depth); !ok {
				return false, why
			}
		}
		return true, ""
	case *ssa.Field:
		return posFieldProvenance(e, v.X.Type(), v.Field, seen, depth)
	case *ssa.UnOp:
		if v.Op == token.MUL {
			if fa, ok := v.X.(*ssa.FieldAddr); ok {
				return posFieldProvenance(e, fa.X.Type(), fa.Field, seen, depth)
			}
		}
		return false, "position is loaded from " + v.X.String()
	case *ssa.Parameter:
		fn := v.Parent()
		idx := -1
		for i, p := range fn.Params {
			if p == v {
				idx = i
			}
		}
		n := 0
		for _, k := range e.sortedFuncKeys() {
			for _, b := range e.funcs[k].Blocks {
				for _, ins := range b.Instrs {
					if call, ok := ins.(ssa.CallInstruction); ok && call.Common().StaticCallee() == fn && idx < len(call.Common().Args) {
						n++
						if ok, why := posProvenance(e, call.Common().Args[idx], seen, depth+1); !ok {
							return false, "caller " + k + ": " + why
						}
					}
				}
			}
		}
		if n == 0 {
			return false, "position is a parameter of " + funcKey(fn) + ", which has no static caller to justify it"
		}
		return true, ""
	case *ssa.BinOp:
		return false, "position is computed by arithmetic (" + v.String() + "): an offset is not known to be the start of a token"
	}
	return false, fmt.Sprintf("position comes from %T (%s)", v, v.String())
}

func posFieldProvenance(e *Engine, recv types.Type, field int, seen map[ssa.Value]bool, depth int) (bool, string) {
	t := recv
	if p, ok := t.Underlying().(*types.Pointer); ok {
		t = p.Elem()
	}
	st, ok := t.Underlying().(*types.Struct)
	if !ok {
		return false, "position is a field of a non-struct"
	}
	if n, ok := types.Unalias(t).(*types.Named); ok && n.Obj().Pkg() != nil && n.Obj().Pkg().Path() == "go/ast" {
		return true, "" // a token position recorded in the tree (Lparen, OpPos, Slash, ...)
	}
	// a record of the repository: every store to this field must hold an accepted position
	fname := st.Field(field).Name()
	n := 0
	for _, k := range e.sortedFuncKeys() {
		for _, b := range e.funcs[k].Blocks {
			for _, ins := range b.Instrs {
				sto, ok := ins.(*ssa.Store)
				if !ok {
					continue
				}
				fa, ok := sto.Addr.(*ssa.FieldAddr)
				if !ok || fa.Field != field {
					continue
				}
				ft := fa.X.Type()
				if p, ok := ft.Underlying().(*types.Pointer); ok {
					ft = p.Elem()
				}
				if !types.Identical(ft, t) {
					continue
				}
				n++
				if ok, why := posProvenance(e, sto.Val, seen, depth+1); !ok {
					return false, "field " + fname + " is set in " + k + ": " + why
				}
			}
		}
	}
	if n == 0 {
		return false, "no store to field " + fname + " found"
	}
	return true, ""
}

var _ = types.Typ
