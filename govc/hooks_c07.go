package main

import (
	"fmt"
	"go/constant"
	"go/token"
	"go/types"
	"strings"

	"golang.org/x/tools/go/ssa"
)

// C07 Warn-site sweep (DESIGN §7 C07): at every call of CheckerContext.Warn / WarnFixable / WarnWithPos /
// WarnFixableWithPos in the checker packages
//   (1) the node that gives the diagnostic its position is non-nil (interface and payload) and is not a node the
//       function built itself with a composite literal (such a node has no position); copies made by astcopy keep
//       their positions and are accepted;
//   (2) the format string is a constant, and the number of formatting verbs equals the number of arguments
//       (decided syntactically on the SSA - a non-constant format can turn source text into '%!d(MISSING)' artefacts);
//   (3) every syntax-node argument that is formatted into the message is non-nil.

func isWarnFunc(f *ssa.Function) (nodeArg, fmtArg int, ok bool) {
	if f == nil || f.Signature.Recv() == nil || !strings.HasSuffix(f.Signature.Recv().Type().String(), "linter.CheckerContext") {
		return 0, 0, false
	}
	switch f.Name() {
	case "Warn":
		return 1, 2, true
	case "WarnFixable":
		return 1, 3, true
	case "WarnWithPos":
		return -1, 2, true
	case "WarnFixableWithPos":
		return -1, 3, true
	}
	return 0, 0, false
}

func countVerbs(format string) int {
	n := 0
	for i := 0; i < len(format); i++ {
		if format[i] != '%' {
			continue
		}
		i++
		if i < len(format) && format[i] == '%' {
			continue
		}
		// flags, width, precision
		for i < len(format) && strings.ContainsRune("+-# 0123456789.*[]", rune(format[i])) {
			i++
		}
		n++
	}
	return n
}

func init() {
	registerHook("C07", func(c *checkCtx) {
		c.useLedger = true
		c.strictNew = true
		c.provedLedger = loadLedger("C07", "proved")
		c.frontierLedger = loadLedger("C07", "frontier")
		sites := 0
		for _, k := range c.e.sortedFuncKeys() {
			if !strings.HasPrefix(k, "checkers.") {
				continue
			}
			fn := c.e.funcs[k]
			has := false
			for _, b := range fn.Blocks {
				for _, ins := range b.Instrs {
					if call, ok := ins.(ssa.CallInstruction); ok {
						callee := call.Common().StaticCallee()
						if _, _, w := isWarnFunc(callee); w {
							has = true
						}
						if callee != nil {
							for j := range callee.Params {
								if c.e.needNode[privKey{callee, j}] {
									has = true
								}
							}
						}
					}
				}
			}
			if !has {
				continue
			}
			ctr := c.e.ctrs[k]
			if ctr == nil {
				ctr = c.e.sweepContract(fn, "C07")
			} else {
				cp := *ctr
				cp.Requires = append(append([]*Clause{}, ctr.Requires...), c.e.sweepContract(fn, "C07").Requires...)
				ctr = &cp
			}
			nsite := 0
			g := c.e.verifyWith(fn, ctr, &genOptions{safety: false}, func(g *gen) {
				g.astValid = true
				g.options.safety = false
				g.onCall = func(g *gen, cc *ssa.CallCommon, callee *ssa.Function, args []Val, pos token.Pos) {
					nodeArg, fmtArg, ok := isWarnFunc(callee)
					if !ok {
						return
					}
					nsite++
					site := g.label(pos, callee.Name(), "call")
					if len(site) > 60 {
						site = site[:60] + "…"
					}
					if nodeArg >= 0 && nodeArg < len(args) {
						n := args[nodeArg]
						if n.Sort == "Iface" {
							g.declareFun("private", []string{"Int"}, "Bool")
							claim := and(not(eq(app("i_tag", n.T), "0")), not(eq(app("i_val", n.T), "0")),
								or(g.alive0Term(app("i_val", n.T)), app("private", app("i_val", n.T))))
							g.oblige("warn", "position node is a non-nil node of the analysed tree: "+site, claim, pos, nil)
						}
					}
					// format constant, verbs vs arguments
					if fmtArg < len(cc.Args) {
						fc, isConst := cc.Args[fmtArg].(*ssa.Const)
						var nargs = -1
						if fmtArg+1 < len(cc.Args) {
							if ops, ok := varargsOf(cc.Args[fmtArg+1]); ok {
								nargs = len(ops)
								for i, op := range ops {
									if isAstPtr(op.Type()) || isAstIface(op.Type()) {
										v := g.val(op)
										var claim string
										if v.Sort == "Iface" {
											claim = and(not(eq(app("i_tag", v.T), "0")), not(eq(app("i_val", v.T), "0")))
										} else {
											claim = not(eq(v.T, "0"))
										}
										g.oblige("warn", fmt.Sprintf("formatted node argument %d is non-nil: %s", i, site), claim, pos, nil)
									}
								}
							} else if cst, isC := cc.Args[fmtArg+1].(*ssa.Const); isC && cst.Value == nil {
								nargs = 0
							}
						}
						okFmt := isConst && fc.Value != nil
						detail := "format string is not a compile-time constant"
						if okFmt {
							verbs := countVerbs(constant.StringVal(fc.Value))
							if nargs >= 0 && verbs != nargs {
								okFmt = false
								detail = fmt.Sprintf("format %q has %d verbs but %d arguments", constant.StringVal(fc.Value), verbs, nargs)
							} else if nargs < 0 {
								okFmt = false
								detail = "arguments are forwarded as a slice: verb count cannot be checked"
							}
						}
						o := g.oblige("warn", "format is a constant with one verb per argument: "+site, "true", pos, nil)
						if !okFmt {
							o.Claim = "false"
							o.Extra = []string{"; " + detail}
						}
					}
				}
			})
			c.addGenNoCover(g, func(o *Obligation) bool {
				return o.Kind == "warn" || (strings.HasPrefix(o.Kind, "call/") && strings.HasPrefix(o.Label, "warn-node"))
			})
			sites += nsite
		}
		c.extraEv["warn_call_sites"] = sites
	})
}

var _ = types.Typ
