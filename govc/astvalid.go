package main

import (
	"fmt"
	"go/token"
	"go/types"
	"strings"
)

// Theory `ast-valid` (DESIGN §5.1): what go/parser + go/types guarantee about the syntax tree of a file that
// parses and type-checks. Every fact is guarded by tnode(n) - "n is a node of a parsed tree": walker entry points
// receive tree nodes, children of tree nodes are tree nodes, astcopy copies of tree nodes are tree nodes. Nodes a checker
// builds itself and the all-zero sentinel nodes returned by astcast.ToX on a type mismatch are NOT tree nodes. The facts are stated about the ENTRY heap arrays of go/ast struct fields and are
// emitted lazily, when a function first touches the field. They are assumptions (listed in the evidence).
//
// Deliberately absent: anything about the number of arguments of a call derived from the spelling of its
// callee, anything about FuncDecl.Body / Recv, SliceExpr bounds, optional init/else parts, ValueSpec.Type, ...

// fields that may be nil (everything else that is a pointer or interface in go/ast nodes is non-nil)
var astNilable = map[string]bool{
	"Field.Tag": true, "Field.Doc": true, "Field.Comment": true, "Field.Names": true,
	"FuncType.Results": true, "FuncType.TypeParams": true,
	"FuncDecl.Recv": true, "FuncDecl.Body": true, "FuncDecl.Doc": true,
	"Ellipsis.Elt": true, "CompositeLit.Type": true,
	"SliceExpr.Low": true, "SliceExpr.High": true, "SliceExpr.Max": true,
	"ArrayType.Len": true, "TypeAssertExpr.Type": true,
	"BranchStmt.Label": true, "IfStmt.Init": true, "IfStmt.Else": true,
	"CaseClause.List": true, "SwitchStmt.Init": true, "SwitchStmt.Tag": true,
	"TypeSwitchStmt.Init": true, "CommClause.Comm": true,
	"ForStmt.Init": true, "ForStmt.Cond": true, "ForStmt.Post": true,
	"RangeStmt.Key": true, "RangeStmt.Value": true,
	"ImportSpec.Name": true, "ImportSpec.Doc": true, "ImportSpec.Comment": true,
	"ValueSpec.Type": true, "ValueSpec.Doc": true, "ValueSpec.Comment": true,
	"TypeSpec.TypeParams": true, "TypeSpec.Doc": true, "TypeSpec.Comment": true,
	"GenDecl.Doc": true, "File.Doc": true, "Ident.Obj": true,
	"File.Scope": true, "File.Unresolved": true,
}

// lists whose elements are non-nil nodes
var astNodeLists = map[string]bool{
	"CallExpr.Args": true, "CompositeLit.Elts": true, "BlockStmt.List": true, "CaseClause.List": true, "CaseClause.Body": true,
	"CommClause.Body": true, "AssignStmt.Lhs": true, "AssignStmt.Rhs": true, "ReturnStmt.Results": true,
	"FieldList.List": true, "Field.Names": true, "ValueSpec.Names": true, "ValueSpec.Values": true, "GenDecl.Specs": true,
	"File.Decls": true, "File.Imports": true, "File.Comments": true, "CommentGroup.List": true, "IndexListExpr.Indices": true,
}

// lists with at least one element
var astNonEmptyLists = map[string]bool{
	"AssignStmt.Lhs": true, "AssignStmt.Rhs": true, "ValueSpec.Names": true, "CommentGroup.List": true,
}

// astValidAxioms returns assumptions for the entry array of heap key `key` (F|go/ast.T|f).
func (g *gen) astValidAxioms(key, name, sort string) {
	if !strings.HasPrefix(key, "F|go/ast.") {
		return
	}
	rest := key[len("F|go/ast."):]
	parts := strings.SplitN(rest, "|", 2)
	if len(parts) != 2 {
		return
	}
	tf := parts[0] + "." + parts[1]
	// the Go type of the field decides which facts apply (token.Pos and int fields are plain integers)
	var ftype types.Type
	if ap := g.e.byPkg["go/ast"]; ap != nil && ap.Types != nil {
		if tn, ok := ap.Types.Scope().Lookup(parts[0]).(*types.TypeName); ok {
			if st, ok := tn.Type().Underlying().(*types.Struct); ok {
				for i := 0; i < st.NumFields(); i++ {
					if st.Field(i).Name() == parts[1] {
						ftype = st.Field(i).Type()
					}
				}
			}
		}
	}
	if ftype == nil {
		return
	}
	_, isPtr := ftype.Underlying().(*types.Pointer)
	n := g.freshName("av")
	g.assumed["theory ast-valid: "+tf] = true
	if g.sweepFrames != "" {
		g.declareFun("private", []string{"Int"}, "Bool")
		pn := g.freshName("pv")
		switch sort {
		case arr("Int", "Int"):
			if !isPtr {
				break
			}
			g.assumeGlobal(fmt.Sprintf("(forall ((%s Int)) (! (=> (private %s) (private (select %s %s))) :pattern ((select %s %s))))", pn, pn, name, pn, name, pn))
		case arr("Int", "Iface"):
			g.assumeGlobal(fmt.Sprintf("(forall ((%s Int)) (! (=> (private %s) (private (i_val (select %s %s)))) :pattern ((select %s %s))))", pn, pn, name, pn, name, pn))
		case arr("Int", "Slice"):
			g.assumeGlobal(fmt.Sprintf("(forall ((%s Int)) (! (=> (private %s) (private (s_base (select %s %s)))) :pattern ((select %s %s))))", pn, pn, name, pn, name, pn))
		}
	}
	g.declTnode()
	sel := app("select", name, n)
	if g.depthFacts && tf != "Ident.Obj" && tf != "File.Scope" && tf != "File.Unresolved" {
		// a parsed tree is finite and acyclic (only Ident.Obj and the scopes point back): a child is strictly less deep
		if !g.declared["astdepth"] {
			g.declareFun("astdepth", []string{"Int"}, "Int")
			dn := g.freshName("dp")
			g.assumeGlobal(fmt.Sprintf("(forall ((%s Int)) (! (>= (astdepth %s) 0) :pattern ((astdepth %s))))", dn, dn, dn))
		}
		switch {
		case sort == arr("Int", "Int") && isPtr:
			g.assumeGlobal(fmt.Sprintf("(forall ((%s Int)) (! (=> (and (tnode %s) (not (= %s 0))) (< (astdepth %s) (astdepth %s))) :pattern (%s)))", n, n, sel, sel, n, sel))
		case sort == arr("Int", "Iface"):
			g.assumeGlobal(fmt.Sprintf("(forall ((%s Int)) (! (=> (and (tnode %s) (not (= (i_tag %s) 0))) (< (astdepth (i_val %s)) (astdepth %s))) :pattern (%s)))", n, n, sel, sel, n, sel))
		case sort == arr("Int", "Slice") && astNodeLists[tf]:
			g.astListDepth(tf, name)
		}
	}
	switch {
	case sort == arr("Int", "Int") && isPtr:
		if !astNilable[tf] {
			g.assumeGlobal(fmt.Sprintf("(forall ((%s Int)) (! (=> (tnode %s) (tnode %s)) :pattern (%s)))", n, n, sel, sel))
		} else {
			g.assumeGlobal(fmt.Sprintf("(forall ((%s Int)) (! (=> (and (tnode %s) (not (= %s 0))) (tnode %s)) :pattern (%s)))", n, n, sel, sel, sel))
		}
	case sort == arr("Int", "Iface"):
		if !astNilable[tf] {
			g.assumeGlobal(fmt.Sprintf("(forall ((%s Int)) (! (=> (tnode %s) (and (not (= (i_tag %s) 0)) (tnode (i_val %s)))) :pattern (%s)))", n, n, sel, sel, sel))
		} else {
			// no typed-nil inside interface fields
			g.assumeGlobal(fmt.Sprintf("(forall ((%s Int)) (! (=> (and (tnode %s) (not (= (i_tag %s) 0))) (tnode (i_val %s))) :pattern (%s)))", n, n, sel, sel, sel))
		}
	case sort == arr("Int", "Slice"):
		if astNodeLists[tf] {
			g.astListAxioms(tf, name)
		}
	}
	if tf == "Ident.Name" && sort == arr("Int", "String") {
		// identifiers are not qualified: the spelling of an identifier contains no dot (the name of a dot import is the dot itself)
		g.assumeGlobal(fmt.Sprintf("(forall ((%s Int)) (! (=> (tnode %s) (or (= %s \".\") (not (str.contains %s \".\")))) :pattern (%s)))", n, n, sel, sel, sel))
	}
	if tf == "CallExpr.Ellipsis" {
		// f(xs...) has at least the variadic argument
		args := g.heapInit(fieldKey("go/ast.CallExpr", "Args"), arr("Int", "Slice"))
		g.assumeGlobal(fmt.Sprintf("(forall ((%s Int)) (! (=> (and (tnode %s) (not (= %s 0))) (>= (s_len (select %s %s)) 1)) :pattern (%s)))", n, n, sel, args, n, sel))
	}
	// switch bodies hold clauses of the right kind
	switch tf {
	case "SwitchStmt.Body", "TypeSwitchStmt.Body", "SelectStmt.Body":
		g.astClauseAxiom(tf, name)
	case "GenDecl.Specs":
		// the kind of the specs follows the keyword: type -> TypeSpec, import -> ImportSpec, const/var -> ValueSpec
		tok := g.heapInit(fieldKey("go/ast.GenDecl", "Tok"), arr("Int", "Int"))
		e := g.heapInit(elemKey("Iface"), arr("Int", arr("Int", "Iface")))
		i := g.freshName("avi")
		sl := sel
		el := app("select", app("select", e, app("s_base", sl)), sidx(app("s_off", sl), i))
		tagOfT := func(name string) string {
			if t := g.resolveType(&specEnv{pkg: g.pkgTypes()}, name); t != nil {
				return fmt.Sprint(g.st.tagOf(t))
			}
			return ""
		}
		ts, is, vs := tagOfT("*ast.TypeSpec"), tagOfT("*ast.ImportSpec"), tagOfT("*ast.ValueSpec")
		if ts != "" && is != "" && vs != "" {
			tk := app("select", tok, n)
			kind := fmt.Sprintf("(ite (= %s %d) %s (ite (= %s %d) %s %s))", tk, int(token.TYPE), ts, tk, int(token.IMPORT), is, vs)
			g.assumeGlobal(fmt.Sprintf("(forall ((%s Int) (%s Int)) (! (=> (and (tnode %s) (<= 0 %s) (< %s (s_len %s))) (= (i_tag %s) %s)) :pattern (%s)))", n, i, n, i, i, sl, el, kind, el))
		}
	case "DeclStmt.Decl":
		// a declaration statement holds a general declaration (const, type, var)
		if t := g.resolveType(&specEnv{pkg: g.pkgTypes()}, "*ast.GenDecl"); t != nil {
			g.assumeGlobal(fmt.Sprintf("(forall ((%s Int)) (! (=> (tnode %s) (= (i_tag %s) %d)) :pattern (%s)))", n, n, sel, g.st.tagOf(t), sel))
		}
	case "TypeSwitchStmt.Assign":
		// `switch x := v.(type)` or `switch v.(type)`: an assignment, or an expression statement holding a type assertion
		ta := g.resolveType(&specEnv{pkg: g.pkgTypes()}, "*ast.AssignStmt")
		te := g.resolveType(&specEnv{pkg: g.pkgTypes()}, "*ast.ExprStmt")
		tt := g.resolveType(&specEnv{pkg: g.pkgTypes()}, "*ast.TypeAssertExpr")
		if ta != nil && te != nil && tt != nil {
			x := g.heapInit(fieldKey("go/ast.ExprStmt", "X"), arr("Int", "Iface"))
			g.assumeGlobal(fmt.Sprintf("(forall ((%s Int)) (! (=> (tnode %s) (or (= (i_tag %s) %d) (and (= (i_tag %s) %d) (= (i_tag (select %s (i_val %s))) %d)))) :pattern (%s)))",
				n, n, sel, g.st.tagOf(ta), sel, g.st.tagOf(te), x, sel, g.st.tagOf(tt), sel))
		}
	case "Comment.Text":
		// the text of a comment includes its // or /* marker
		if sort == arr("Int", "String") {
			g.assumeGlobal(fmt.Sprintf("(forall ((%s Int)) (! (=> (tnode %s) (or (str.prefixof \"//\" %s) (and (str.prefixof \"/*\" %s) (>= (str.len %s) 4)))) :pattern (%s)))", n, n, sel, sel, sel, sel))
		}
	case "FuncDecl.Recv":
		// a method has exactly one receiver
		lst := g.heapInit(fieldKey("go/ast.FieldList", "List"), arr("Int", "Slice"))
		g.assumeGlobal(fmt.Sprintf("(forall ((%s Int)) (! (=> (and (tnode %s) (not (= %s 0))) (= (s_len (select %s %s)) 1)) :pattern (%s)))", n, n, sel, lst, sel, sel))
	}
}

func (g *gen) astListAxioms(tf, name string) {
	// which element array? lists of interfaces (Expr/Stmt/Decl/Spec) live in E|Iface, lists of pointers in E|Int
	ifaceLists := map[string]bool{"CallExpr.Args": true, "CompositeLit.Elts": true, "BlockStmt.List": true, "CaseClause.List": true, "CaseClause.Body": true,
		"CommClause.Body": true, "AssignStmt.Lhs": true, "AssignStmt.Rhs": true, "ReturnStmt.Results": true, "ValueSpec.Values": true, "GenDecl.Specs": true,
		"File.Decls": true, "IndexListExpr.Indices": true}
	n := g.freshName("av")
	i := g.freshName("avi")
	sl := app("select", name, n)
	guard := and(app("<=", "0", i), app("<", i, app("s_len", sl)))
	if ifaceLists[tf] {
		e := g.heapInit(elemKey("Iface"), arr("Int", arr("Int", "Iface")))
		el := app("select", app("select", e, app("s_base", sl)), sidx(app("s_off", sl), i))
		g.assumeGlobal(fmt.Sprintf("(forall ((%s Int) (%s Int)) (! (=> (and (tnode %s) %s) (and (not (= (i_tag %s) 0)) (tnode (i_val %s)))) :pattern (%s)))", n, i, n, guard, el, el, el))
	} else {
		e := g.heapInit(elemKey("Int"), arr("Int", arr("Int", "Int")))
		el := app("select", app("select", e, app("s_base", sl)), sidx(app("s_off", sl), i))
		g.assumeGlobal(fmt.Sprintf("(forall ((%s Int) (%s Int)) (! (=> (and (tnode %s) %s) (tnode %s)) :pattern (%s)))", n, i, n, guard, el, el))
	}
	// the backing arrays of syntax-tree lists are part of the (immutable) tree
	g.declareFun("astlist", []string{"Int"}, "Bool")
	g.assumeGlobal(fmt.Sprintf("(forall ((%s Int)) (! (=> (tnode %s) (astlist (s_base %s))) :pattern (%s)))", n, n, sl, sl))
	if astNonEmptyLists[tf] {
		g.assumeGlobal(fmt.Sprintf("(forall ((%s Int)) (! (=> (tnode %s) (>= (s_len %s) 1)) :pattern (%s)))", n, n, sl, sl))
	}
}

// astListDepth: the elements of a node's list are strictly less deep than the node
func (g *gen) astListDepth(tf, name string) {
	ifaceLists := map[string]bool{"CallExpr.Args": true, "CompositeLit.Elts": true, "BlockStmt.List": true, "CaseClause.List": true, "CaseClause.Body": true,
		"CommClause.Body": true, "AssignStmt.Lhs": true, "AssignStmt.Rhs": true, "ReturnStmt.Results": true, "ValueSpec.Values": true, "GenDecl.Specs": true,
		"File.Decls": true, "IndexListExpr.Indices": true}
	n := g.freshName("av")
	i := g.freshName("avi")
	sl := app("select", name, n)
	guard := and(app("<=", "0", i), app("<", i, app("s_len", sl)))
	if ifaceLists[tf] {
		e := g.heapInit(elemKey("Iface"), arr("Int", arr("Int", "Iface")))
		el := app("select", app("select", e, app("s_base", sl)), sidx(app("s_off", sl), i))
		g.assumeGlobal(fmt.Sprintf("(forall ((%s Int) (%s Int)) (! (=> (and (tnode %s) %s) (< (astdepth (i_val %s)) (astdepth %s))) :pattern (%s)))", n, i, n, guard, el, n, el))
	} else {
		e := g.heapInit(elemKey("Int"), arr("Int", arr("Int", "Int")))
		el := app("select", app("select", e, app("s_base", sl)), sidx(app("s_off", sl), i))
		g.assumeGlobal(fmt.Sprintf("(forall ((%s Int) (%s Int)) (! (=> (and (tnode %s) %s) (< (astdepth %s) (astdepth %s))) :pattern (%s)))", n, i, n, guard, el, n, el))
	}
}

func (g *gen) astClauseAxiom(tf, name string) {
	clause := "*ast.CaseClause"
	if tf == "SelectStmt.Body" {
		clause = "*ast.CommClause"
	}
	t := g.resolveType(&specEnv{pkg: g.pkgTypes()}, clause)
	if t == nil {
		return
	}
	tag := fmt.Sprint(g.st.tagOf(t))
	list := g.heapInit(fieldKey("go/ast.BlockStmt", "List"), arr("Int", "Slice"))
	e := g.heapInit(elemKey("Iface"), arr("Int", arr("Int", "Iface")))
	n := g.freshName("av")
	i := g.freshName("avi")
	sl := app("select", list, app("select", name, n))
	el := app("select", app("select", e, app("s_base", sl)), sidx(app("s_off", sl), i))
	g.assumeGlobal(fmt.Sprintf("(forall ((%s Int) (%s Int)) (! (=> (and (tnode %s) (<= 0 %s) (< %s (s_len %s))) (= (i_tag %s) %s)) :pattern (%s)))", n, i, n, i, i, sl, el, tag, el))
}


// declTnode declares the predicate "is a node of a parsed tree"; nil is not a node.
func (g *gen) declTnode() {
	if g.declared["tnode"] {
		return
	}
	g.declareFun("tnode", []string{"Int"}, "Bool")
	g.assumeGlobal("(not (tnode 0))")
}
