package main

import (
	"strings"
)

// Registry obligations generated for every checker registration site (`init` functions of package
// checkers that call CheckerCollection.AddChecker). No annotation is needed in the repository: the
// contract is the same for all of them and is synthesised here.
//
//   C14  params-owned: every *CheckerParam registered for a checker is an object allocated by that
//        init function, so no two checkers (and no global) share a parameter cell.
//   C06  RI1: the registered name and tags are non-empty and do not start with '#'
//        RI2: a checker without the experimental/opinionated/performance tag carries diagnostic or style
//             and not security — the condition under which the analyzer's default
//             (#diagnostic,#style,#security minus #experimental,#opinionated,#performance) equals the CLI's.

func registrySiteContract(key string, prop string) *Contract {
	ctr := &Contract{Key: key, Loops: map[int]*LoopSpec{}, Props: []string{prop}, File: "synthesised by govc (hooks_registry.go)"}
	add := func(label, src string) {
		c, err := parseClause("@"+label+" "+src, "hooks_registry.go")
		if err != nil {
			panic(err)
		}
		ctr.Calls = append(ctr.Calls, &CallClause{Callee: "(*CheckerCollection).AddChecker", Kind: "requires", Clause: *c})
	}
	switch prop {
	case "C14":
		add("params-owned", `forall pname string :: has(arg1.Params, pname) ==> fresh(arg1.Params[pname])`)
	case "C06":
		add("RI1-name-and-tags-wellformed", `wfInfo(arg1)`)
		add("RI2-default-sets-agree", `regTagsAgree(arg1)`)
	}
	ctr.NoSafety = true
	return ctr
}

func registryHook(prop string) propHook {
	return func(c *checkCtx) {
		n := 0
		for _, k := range c.e.sortedFuncKeys() {
			if !strings.HasPrefix(k, "checkers.init@") || strings.Contains(k, "$") {
				continue
			}
			fn := c.e.funcs[k]
			calls := false
			for _, b := range fn.Blocks {
				for _, ins := range b.Instrs {
					if strings.Contains(ins.String(), "AddChecker") {
						calls = true
					}
				}
			}
			if !calls {
				continue
			}
			g := c.e.verify(fn, registrySiteContract(k, prop), nil)
			c.addGen(g, nil)
			n++
		}
		c.extraEv["registration_sites_checked"] = n
	}
}

func init() {
	registerHook("C14", registryHook("C14"))
	registerHook("C06", registryHook("C06"))
}
