package main

import (
	"os"
	"fmt"
	"go/constant"
	"go/token"
	"go/types"
	"sort"
	"strconv"
	"strings"

	"golang.org/x/tools/go/ssa"
)

func (g *gen) resultVal(sig *types.Signature, mk func(i int, t types.Type) Val) Val {
	res := sig.Results()
	switch res.Len() {
	case 0:
		return Val{}
	case 1:
		return mk(0, res.At(0).Type())
	}
	var tup []Val
	for i := 0; i < res.Len(); i++ {
		tup = append(tup, mk(i, res.At(i).Type()))
	}
	return Val{Tuple: tup}
}

func (g *gen) havocAllHeap(reason string) {
	var ks []string
	for k := range g.heapSort {
		ks = append(ks, k)
	}
	sort.Strings(ks)
	for _, k := range ks {
		if strings.HasPrefix(k, "LOG|") || strings.HasPrefix(k, "G|") || strings.HasPrefix(k, "RG|") {
			continue // ghost state is only changed by contracts
		}
		g.heapHavoc(k)
	}
	if wb := g.wblock(); wb != nil {
		w := g.written[wb]
		if w == nil {
			w = map[string]bool{}
			g.written[wb] = w
		}
		w["*"] = true
	}
}

func (g *gen) call(instr ssa.Instruction, c *ssa.CallCommon, pos token.Pos) Val {
	g.curCall = c
	var args []Val
	for _, a := range c.Args {
		args = append(args, g.val(a))
	}
	sig := c.Signature()

	// builtins
	if b, ok := c.Value.(*ssa.Builtin); ok {
		return g.builtin(b, c, args, pos, instr)
	}
	if c.IsInvoke() {
		recv := g.val(c.Value)
		if g.options.safety {
			g.obligeAndAssume("nil", g.label(pos, c.Value.Name()+"."+c.Method.Name(), "call"), not(eq(app("i_tag", recv.T), "0")), pos)
		}
		key := typeName(c.Value.Type()) + "." + c.Method.Name()
		full := key
		if n, ok := types.Unalias(c.Value.Type()).(*types.Named); ok && n.Obj().Pkg() != nil {
			full = n.Obj().Pkg().Path() + "." + n.Obj().Name() + "." + c.Method.Name()
		}
		ctr := g.e.ctrs[key]
		if ctr == nil {
			ctr = g.e.ext[full]
		}
		if ctr == nil {
			ctr = g.e.ifaceMethodContract(c.Value.Type(), c.Method.Name())
		}
		g.callSiteClauses(key, append([]Val{recv}, args...), c, pos)
		if ctr != nil {
			return g.applyContract(ctr, key, sig, recv, args, nil, pos)
		}
		// unknown interface method: repo interfaces -> union of implementations' mod sets; external -> frame assumption
		if n, ok := types.Unalias(c.Value.Type()).(*types.Named); ok && n.Obj().Pkg() != nil && strings.HasPrefix(n.Obj().Pkg().Path(), repoMod) {
			g.havocKeys(g.e.invokeModSet(c))
		} else {
			g.assumed["frame:"+full] = true
		}
		g.tick()
		return g.resultVal(sig, func(i int, t types.Type) Val { v := g.freshVal("ret_"+c.Method.Name(), t); g.notePtr(v); return v })
	}

	// static callee?
	var callee *ssa.Function
	var bindings []Val
	switch v := c.Value.(type) {
	case *ssa.Function:
		callee = v
	case *ssa.MakeClosure:
		callee = v.Fn.(*ssa.Function)
		if cv := g.vals[v].Fn; cv != nil {
			bindings = cv.bindings
		}
	default:
		if fv := g.val(c.Value); fv.Fn != nil {
			callee = fv.Fn.fn
			bindings = fv.Fn.bindings
		}
	}
	if callee == nil {
		// dynamic call through a function value
		g.callSiteClauses("<dynamic>", args, c, pos)
		// every call through a function value is recorded in the ghost log `dyncall`
		g.emitLog(g.specEnvHere(), &EmitSpec{Log: "dyncall"})
		if g.ctr != nil && g.ctr.DynCallsPure && sig.Results().Len() == 1 && (g.st.sortOf(sig.Results().At(0).Type()) == "Bool" || g.st.sortOf(sig.Results().At(0).Type()) == "String") {
			// pure dynamic call: the result is a function of the function value and the arguments
			fv := g.val(c.Value)
			sorts := []string{fv.Sort}
			ts := []string{fv.T}
			for _, a := range args {
				sorts = append(sorts, a.Sort)
				ts = append(ts, a.T)
			}
			rs := g.st.sortOf(sig.Results().At(0).Type())
			name := "dyn_" + sanitize(strings.Join(sorts[1:], "_")) + "_" + rs
			g.declareFun(name, sorts, rs)
			g.assumed["calls through function values in "+g.key+" are modelled as pure (dyncalls_pure)"] = true
			g.useAbstract("dyn")
			rv := Val{T: app(name, ts...), Sort: rs, Typ: sig.Results().At(0).Type()}
			g.linkDynToContracts(fv, sig, args, rv)
			return rv
		}
		if g.ctr != nil && g.ctr.DynCallsFrame {
			g.assumed["calls through function values in "+g.key+" are assumed to leave the modelled state unchanged (dyncalls_frame)"] = true
			g.tick()
			return g.resultVal(sig, func(i int, t types.Type) Val { return g.freshVal("ret_dyn", t) })
		}
		g.havocAllHeap("dynamic call")
		g.tick()
		return g.resultVal(sig, func(i int, t types.Type) Val { v := g.freshVal("ret_dyn", t); g.notePtr(v); return v })
	}
	key := funcKey(callee)
	if !g.e.inRepo(callee) {
		key = extKey(callee)
	}
	if key == "sync.(*WaitGroup).Wait" && len(g.pendingGo) > 0 {
		for _, f := range g.pendingGo {
			f()
		}
		g.pendingGo = nil
		g.pendingKeys = nil
	}
	var recv Val
	cargs := args
	if callee.Signature.Recv() != nil && len(args) > 0 {
		recv = args[0]
		cargs = args[1:]
	}
	g.callSiteClauses(key, args, c, pos)
	if g.onCall != nil {
		g.onCall(g, c, callee, args, pos)
	}
	if g.e.inRepo(callee) && g.nilArgs {
		// assume/guarantee: callees assume non-nil receivers and syntax-node pointers; every call site proves it
		for i, p := range callee.Params {
			if i >= len(args) {
				break
			}
			isRecv := i == 0 && callee.Signature.Recv() != nil
			if (isRecv && isRepoStructPtr(p.Type())) || isAstPtr(p.Type()) || (!isRecv && isRepoStructPtr(p.Type())) {
				if args[i].Place == nil && args[i].Sort == "Int" {
					skip := false
					for _, a := range g.allocs {
						if a == args[i].T {
							skip = true
						}
					}
					if !skip && !strings.HasPrefix(args[i].T, "(- ") && !(isAstPtr(p.Type()) && g.e.nilableParam(callee, i)) {
						g.obligeAndAssume("nilarg", g.label(pos, callee.Name(), "call")+" arg "+p.Name(), not(eq(args[i].T, "0")), pos)
						if isAstPtr(p.Type()) && len(g.obls) > 0 {
							g.obls[len(g.obls)-1].Meta = fmt.Sprintf("nilparam:%s#%d", funcKey(callee), i)
						}
					}
				}
			}
			if g.astValid && isRxExpr(p.Type()) && i < len(args) {
				g.declRx(p.Type())
				g.obligeAndAssume("nilarg", g.label(pos, callee.Name(), "call")+" arg "+p.Name()+" is a valid regexp expression", app("rxvalid", args[i].T), pos)
			}
			if g.astValid && args[i].Place == nil {
				// callees assume that syntax-node arguments are nodes of the analysed tree (or nil, for interface-typed ones)
				g.declTnode()
				if isAstPtr(p.Type()) && args[i].Sort == "Int" {
					claim := app("tnode", args[i].T)
					if g.e.nilableParam(callee, i) {
						claim = or(eq(args[i].T, "0"), claim)
					}
					if g.e.sentinelParam(callee, i) {
						if sent := g.sentinelFor(p.Type()); sent != "" {
							claim = or(claim, eq(args[i].T, sent))
						}
					}
					g.obligeAndAssume("nilarg", g.label(pos, callee.Name(), "call")+" arg "+p.Name()+" is a tree node", claim, pos)
					if len(g.obls) > 0 && i < len(c.Args) && mayBeAstcastResult(c.Args[i], g.e, g.fn) {
						g.obls[len(g.obls)-1].Meta = fmt.Sprintf("sentparam:%s#%d", funcKey(callee), i)
					}
				} else if isAstNodeSlice(p.Type()) && args[i].Sort == "Slice" && !walkerEntry[callee.Name()] {
					g.declareFun("astlist", []string{"Int"}, "Bool")
					q := g.freshName("li")
					sl := args[i].T
					es := "Int"
					if isAstIfaceSlice(p.Type()) {
						es = "Iface"
					}
					el := app("select", app("select", g.heapGet(elemKey(es), arr("Int", arr("Int", es))), app("s_base", sl)), sidx(app("s_off", sl), q))
					body := app("tnode", el)
					if es == "Iface" {
						body = and(not(eq(app("i_tag", el), "0")), app("tnode", app("i_val", el)))
					}
					all := fmt.Sprintf("(forall ((%s Int)) (! (=> (and (<= 0 %s) (< %s (s_len %s))) %s) :pattern (%s)))", q, q, q, sl, body, el)
					g.obligeAndAssume("nilarg", g.label(pos, callee.Name(), "call")+" arg "+p.Name()+" is a list of tree nodes", and(all, or(eq(app("s_len", sl), "0"), app("astlist", app("s_base", sl)))), pos)
				} else if isAstIface(p.Type()) && args[i].Sort == "Iface" && !(isRecv) && !walkerEntry[callee.Name()] {
					g.obligeAndAssume("nilarg", g.label(pos, callee.Name(), "call")+" arg "+p.Name()+" is nil or a tree node", or(eq(app("i_tag", args[i].T), "0"), app("tnode", app("i_val", args[i].T))), pos)
				}
			}
		}
	}
	if g.e.inRepo(callee) && g.sweepFrames != "" && len(callee.Blocks) > 0 {
		if ctr := g.e.ctrs[key]; ctr == nil || !ctr.Trusted {
			return g.applyContractFn(g.e.sweepFrameContract(callee, g.sweepFrames), key, callee, args, bindings, pos)
		}
	}
	if g.e.inRepo(callee) {
		if ctr := g.e.ctrs[key]; ctr != nil && !ctr.terminationOnly() {
			return g.applyContractFn(ctr, key, callee, args, bindings, pos)
		} else if ctr != nil {
			// a contract that only names a measure: the call is otherwise treated like a call of an uncontracted function
			g.decreasesObligation(ctr, key, callee, args, pos)
		}
		// no contract: a small callee without loops is executed in place (so that extracting a helper from a function under
		// contract does not cut its proof in two); otherwise inferred frame, unconstrained results
		if g.canInline(callee) {
			return g.inlineCall(callee, args, bindings, sig, pos)
		}
		g.frameCheckKeys(g.e.modSetOf(callee), pos, callee.Name())
		g.havocKeysKeepingOld(g.e.modSetOf(callee), g.e.oldWriteSet(callee), len(callee.FreeVars) > 0)
		g.tick()
		return g.resultVal(sig, func(i int, t types.Type) Val { v := g.freshVal("ret_"+callee.Name(), t); g.notePtr(v); return v })
	}
	if g.sweepFrames != "" {
		if isCursorMutator(callee) && len(args) > 0 {
			g.declareFun("cursorPrivate", []string{"Int"}, "Bool")
			g.oblige("call/"+callee.Name()+"/pre", "cursor mutator only inside a private copy", app("cursorPrivate", args[0].T), pos, nil)
		}
		if key == "golang.org/x/tools/go/ast/astutil.Apply" && len(c.Args) == 3 {
			mut := false
			for _, a := range c.Args[1:] {
				if mc, ok := unwrapFn(a).(*ssa.MakeClosure); ok && closureMutates(mc.Fn.(*ssa.Function), map[*ssa.Function]bool{}) {
					mut = true
				}
			}
			if mut && args[0].Sort == "Iface" {
				g.declareFun("private", []string{"Int"}, "Bool")
				g.oblige("call/Apply/pre", "mutating callbacks need a private root", app("private", app("i_val", args[0].T)), pos, nil)
			}
		}
	}
	if ctr := g.e.ext[key]; ctr != nil {
		g.assumed["ext:"+key] = true
		_ = recv
		_ = cargs
		return g.applyContractFn(ctr, key, callee, args, nil, pos)
	}
	if strings.HasPrefix(key, "github.com/go-toolsmith/astcast.To") || strings.HasPrefix(key, "github.com/go-toolsmith/astcopy.") {
		// astcast.ToX returns its argument or a package-level sentinel node, never nil; astcopy.X(n) returns nil only for nil n
		g.assumed["deps: "+strings.SplitN(key, ".", 3)[0]+"."+strings.SplitN(key, "/", 3)[2]+" returns a non-nil node (astcopy: for a non-nil argument)"] = true
		g.tick() // the callee may allocate: results are introduced in the state after the call
		r := g.resultVal(sig, func(i int, t types.Type) Val { return g.freshVal("ret_"+callee.Name(), t) })
		if r.Sort == "Int" {
			if strings.Contains(key, "astcast.To") {
				g.assume(not(eq(r.T, "0")))
				g.astcastModel(sig, args, r)
			} else if len(args) == 1 && args[0].Sort == "Int" {
				g.assume(implies(not(eq(args[0].T, "0")), not(eq(r.T, "0"))))
				if g.astValid {
					g.declTnode()
					g.assume(implies(app("tnode", args[0].T), app("tnode", r.T)))
				}
			}
		} else if r.Sort == "Iface" && len(args) == 1 && args[0].Sort == "Iface" {
			g.assume(implies(not(eq(app("i_tag", args[0].T), "0")), and(eq(app("i_tag", r.T), app("i_tag", args[0].T)), not(eq(app("i_val", r.T), "0")))))
			if g.astValid {
				g.declTnode()
				g.assume(implies(app("tnode", app("i_val", args[0].T)), app("tnode", app("i_val", r.T))))
			}
		}
		if strings.Contains(key, "astcopy.") && g.sweepFrames != "" {
			g.declareFun("private", []string{"Int"}, "Bool")
			if r.Sort == "Int" {
				g.assume(app("private", r.T))
			} else if r.Sort == "Iface" {
				g.assume(app("private", app("i_val", r.T)))
			}
		}
		if strings.Contains(key, "astcopy.") {
			// a deep copy: the result is a fresh region (frame reasoning of C05)
			if r.Sort == "Int" {
				g.assume(implies(not(eq(r.T, "0")), app(">", g.birth(r.T), g.now0())))
			} else if r.Sort == "Iface" {
				g.assume(implies(not(eq(app("i_tag", r.T), "0")), app(">", g.birth(app("i_val", r.T)), g.now0())))
			}
		}
		return r
	}
	if v, ok := g.intrinsic(key, callee, args, pos); ok {
		g.assumed["intrinsic:"+key] = true
		return v
	}
	// unknown external function: results unconstrained; heap reachable from the repository's objects is assumed untouched,
	// except places passed by address
	g.assumed["frame:"+key] = true
	for _, a := range args {
		if a.Place != nil {
			g.storePlace(a.Place, g.freshVal("ext_out", placeType(a.Place)).T)
		}
	}
	g.tick()
	return g.resultVal(sig, func(i int, t types.Type) Val { v := g.freshVal("ret_"+callee.Name(), t); g.notePtr(v); return v })
}

// havocKeysKeepingOld: keys the callee writes only on objects it allocates itself keep their values on every object that
// existed before the call.
func (g *gen) havocKeysKeepingOld(keys, oldKeys map[string]bool, closure bool) {
	if keys["*"] || oldKeys["*"] || closure {
		g.havocKeys(keys)
		return
	}
	nowBefore := g.now()
	var ks []string
	for k := range keys {
		ks = append(ks, k)
	}
	sort.Strings(ks)
	for _, k := range ks {
		prev := g.cur.heap[k]
		if prev == "" {
			if _, known := g.heapSort[k]; known {
				prev = "H0_" + sanitize(k)
			}
		}
		g.heapHavoc(k)
		cur := g.cur.heap[k]
		if oldKeys[k] || prev == "" || cur == "" || cur == prev || !(strings.HasPrefix(k, "F|") || strings.HasPrefix(k, "E|") || strings.HasPrefix(k, "C|")) {
			continue
		}
		o := g.freshName("fo")
		g.assumed["a callee without contract that writes a field only on objects it allocated itself leaves that field unchanged on all earlier objects (syntactic scan of the callee and its callees)"] = true
		g.assumeGlobal(fmt.Sprintf("(forall ((%s Int)) (! (=> (<= (birth %s) %s) (= (select %s %s) (select %s %s))) :pattern ((select %s %s))))", o, o, nowBefore, cur, o, prev, o, cur, o))
	}
}

func (g *gen) havocKeys(keys map[string]bool) {
	if keys["*"] {
		g.havocAllHeap("callee with unknown effects")
		return
	}
	var ks []string
	for k := range keys {
		ks = append(ks, k)
	}
	sort.Strings(ks)
	for _, k := range ks {
		g.heapHavoc(k)
	}
}

// callSiteClauses emits the `call <callee> requires ...` obligations of the enclosing contract.
func (g *gen) callSiteClauses(key string, args []Val, c *ssa.CallCommon, pos token.Pos) {
	if g.ctr == nil {
		return
	}
	for _, cc := range g.ctr.Calls {
		if !strings.Contains(key, cc.Callee) {
			continue
		}
		ordKey := cc.Callee + "|" + cc.Label
		g.callOrd[ordKey]++
		if cc.Ord != 0 && cc.Ord != g.callOrd[ordKey] {
			continue
		}
		env := g.specEnvHere()
		for i, a := range args {
			env.vars[fmt.Sprintf("arg%d", i)] = a
		}
		t, err := g.evalBool(env, cc.E)
		if err != nil {
			g.contractErr("call-clause", cc.Label, err)
			continue
		}
		g.oblige("call/"+cc.Callee, cc.Label, t, pos, cc.Props)
	}
}

func (g *gen) applyContractFn(ctr *Contract, key string, callee *ssa.Function, args []Val, bindings []Val, pos token.Pos) Val {
	env := g.specEnvHere()
	env.calleeMode = true
	env.fn = nil
	if callee.Pkg != nil {
		env.pkg = callee.Pkg.Pkg
	} else if callee.Parent() != nil {
		p := callee
		for p.Parent() != nil {
			p = p.Parent()
		}
		if p.Pkg != nil {
			env.pkg = p.Pkg.Pkg
		}
	} else if o := callee.Object(); o != nil {
		env.pkg = o.Pkg()
	}
	for i, p := range callee.Params {
		if i < len(args) {
			a := args[i]
			if a.Typ == nil {
				a.Typ = p.Type()
			}
			env.vars[p.Name()] = a
			env.vars[fmt.Sprintf("arg%d", i)] = a
		}
	}
	// external functions have no Params (no body): use the signature
	if len(callee.Params) == 0 {
		sig := callee.Signature
		off := 0
		if sig.Recv() != nil {
			if len(args) > 0 {
				env.vars[sig.Recv().Name()] = args[0]
				env.vars["recv"] = args[0]
			}
			off = 1
		}
		for i := 0; i < sig.Params().Len(); i++ {
			if i+off < len(args) {
				a := args[i+off]
				env.vars[sig.Params().At(i).Name()] = a
				env.vars[fmt.Sprintf("arg%d", i)] = a
			}
		}
	}
	for i, fv := range callee.FreeVars {
		if i < len(bindings) {
			pv := bindings[i]
			pt := fv.Type().(*types.Pointer).Elem()
			if pv.Place == nil {
				if _, ok := structOf(pt); !ok {
					pv.Place = &Place{Kind: plCell, Ref: pv.T, Elem: pt}
				}
			}
			env.vars["&"+fv.Name()] = pv
		}
	}
	return g.applyContractEnv(ctr, key, callee.Signature, env, callee, bindings, pos)
}

// terminationOnly: the contract says nothing but how the recursion ends
func (c *Contract) terminationOnly() bool {
	return (c.Decreases != nil || c.TerminatesBy != "" || c.TotalOrder != "") && len(c.Requires) == 0 && len(c.Ensures) == 0 && !c.HasAssign && len(c.Calls) == 0 &&
		!c.Pure && !c.Trusted && !c.Fresh && len(c.Emits) == 0 && len(c.Sets) == 0 && len(c.Abstracts) == 0 && !c.NoSafety && !c.AstValid && !c.DynCallsFrame
}

func (g *gen) decreasesObligation(ctr *Contract, key string, callee *ssa.Function, args []Val, pos token.Pos) {
	if ctr.Decreases == nil || g.entryMeasure == "" || !g.e.sameCycle(g.fn, callee) {
		return
	}
	env := g.specEnvHere()
	env.calleeMode = true
	env.fn = nil
	if callee.Pkg != nil {
		env.pkg = callee.Pkg.Pkg
	}
	for i, p := range callee.Params {
		if i < len(args) {
			a := args[i]
			if a.Typ == nil {
				a.Typ = p.Type()
			}
			env.vars[p.Name()] = a
			env.vars[fmt.Sprintf("arg%d", i)] = a
		}
	}
	short := key
	if i := strings.LastIndex(short, "/"); i >= 0 {
		short = short[i+1:]
	}
	m, err := g.evalSpec(env, ctr.Decreases.E)
	if err != nil {
		g.contractErr("call-"+short+"-decreases", "measure", err)
		return
	}
	g.oblige("call/"+short+"/decreases", "recursive call on a smaller argument", and(app(">=", m.T, "0"), app("<", m.T, g.entryMeasure)), pos, nil)
}

func (g *gen) applyContract(ctr *Contract, key string, sig *types.Signature, recv Val, args []Val, bindings []Val, pos token.Pos) Val {
	env := g.specEnvHere()
	env.calleeMode = true
	env.fn = nil
	env.vars["recv"] = recv
	for i := 0; i < sig.Params().Len(); i++ {
		if i < len(args) {
			env.vars[sig.Params().At(i).Name()] = args[i]
			env.vars[fmt.Sprintf("arg%d", i)] = args[i]
		}
	}
	return g.applyContractEnv(ctr, key, sig, env, nil, nil, pos)
}

func (g *gen) applyContractEnv(ctr *Contract, key string, sig *types.Signature, env *specEnv, callee *ssa.Function, bindings []Val, pos token.Pos) Val {
	// free variables of closures are visible to their contracts by name (current value of the captured cell)
	if callee != nil {
		for i, fv := range callee.FreeVars {
			if i < len(bindings) {
				name := fv.Name()
				pv := env.vars["&"+name]
				pt := fv.Type().(*types.Pointer).Elem()
				env.vars[name] = g.load(pv, pt)
			}
		}
	}
	short := key
	if i := strings.LastIndex(short, "/"); i >= 0 {
		short = short[i+1:]
	}
	// preconditions
	for _, r := range ctr.Requires {
		t, err := g.evalBool(env, r.E)
		if err != nil {
			g.contractErr("call-"+short+"-requires", r.Label, err)
			continue
		}
		if ctr.External && !g.options.safety {
			continue
		}
		g.obligeAndAssume("call/"+short+"/pre", r.Label, t, pos)
	}
	// recursion: the callee's measure, taken on the arguments, is below the measure this function was entered with
	if callee != nil && ctr.Decreases != nil && g.entryMeasure != "" && g.e.sameCycle(g.fn, callee) {
		if m, err := g.evalSpec(env, ctr.Decreases.E); err != nil {
			g.contractErr("call-"+short+"-decreases", "measure", err)
		} else {
			g.oblige("call/"+short+"/decreases", "recursive call on a smaller argument", and(app(">=", m.T, "0"), app("<", m.T, g.entryMeasure)), pos, nil)
		}
	}
	pre := g.cur.clone()
	// frame
	if ctr.HasAssign {
		preEnv := *env
		preEnv.st = pre
		for _, a := range ctr.Assigns {
			p, err := g.placeOf(&preEnv, a)
			if err != nil {
				g.unsupportedf("call %s assigns: %v", short, err)
				g.havocAllHeap("bad assigns")
				break
			}
			g.frameCheckPlace(p, pos, "call "+short+" assigns "+a.String())
			if p.Kind == plField && p.Ref == "*" {
				g.heapHavoc(fieldKey(p.Struct, p.Field))
				continue
			}
			if p.Kind == plField && p.Field == "*" {
				g.storeStruct(p.Ref, p.Elem, g.freshVal("havoc_obj", p.Elem).T)
				continue
			}
			if p.Kind == plMap {
				ks, vs, ds, vsrt := g.mapSorts(p.MapT)
				for _, kk := range []struct{ key, srt, inner string }{{mapDomKey(ks, vs), ds, arr(ks, "Bool")}, {mapValKey(ks, vs), vsrt, arr(ks, vs)}} {
					h := g.heapGet(kk.key, kk.srt)
					nv := g.freshName("havoc_map")
					g.declare(nv, kk.inner)
					g.heapSet(kk.key, kk.srt, app("store", h, p.Ref, nv))
				}
				continue
			}
			if p.Idx == "*" {
				es := g.st.sortOf(p.Elem)
				k := elemKey(es)
				as := arr("Int", arr("Int", es))
				h := g.heapGet(k, as)
				nv := g.freshName("havoc_elems")
				g.declare(nv, arr("Int", es))
				g.heapSet(k, as, app("store", h, p.Base, nv))
				continue
			}
			g.storePlace(p, g.freshVal("havoc_"+short, placeType(p)).T)
		}
	} else if callee != nil && g.e.inRepo(callee) {
		ms := g.e.modSetOf(callee)
		g.frameCheckKeys(ms, pos, short)
		g.havocKeys(ms)
	}
	if !ctr.Pure || ctr.Fresh {
		g.tick()
	}
	// results
	var results []Val
	rv := g.resultVal(sig, func(i int, t types.Type) Val {
		v := g.freshVal("ret_"+sanitize(short), t)
		results = append(results, v)
		return v
	})
	post := *env
	post.old = pre
	post.st = nil
	vars := map[string]Val{}
	for k, v := range env.vars {
		vars[k] = v
	}
	post.vars = vars
	// captured variables are re-read in the state after the call (old(x) still sees the value before it)
	var oldFV map[string]Val
	if callee != nil {
		for i, fv := range callee.FreeVars {
			if i < len(bindings) {
				if pv, ok := env.vars["&"+fv.Name()]; ok {
					if oldFV == nil {
						oldFV = map[string]Val{}
					}
					oldFV[fv.Name()] = env.vars[fv.Name()]
					post.vars[fv.Name()] = g.load(pv, fv.Type().(*types.Pointer).Elem())
				}
			}
		}
	}
	post.oldVars = oldFV
	g.bindResults(&post, sig, results)
	// named results are plain names in callee contracts
	for i := 0; i < sig.Results().Len() && i < len(results); i++ {
		if n := sig.Results().At(i).Name(); n != "" && n != "_" {
			post.vars[n] = results[i]
		}
	}
	if ctr.Fresh && len(results) > 0 {
		r := results[0]
		if r.Sort == "Slice" {
			r = Val{T: app("s_base", r.T), Sort: "Int"}
		}
		preNow := pre.heap["NOW"]
		if preNow == "" {
			preNow = g.now0()
		}
		g.assume(and(app(">", r.T, "0"), app(">", g.birth(r.T), preNow), app("<=", g.birth(r.T), g.now())))
		g.allocs = append(g.allocs, r.T)
	}
	for _, en := range ctr.Ensures {
		t, err := g.evalBool(&post, en.E)
		if err != nil {
			g.contractErr("call-"+short+"-ensures", en.Label, err)
			continue
		}
		g.assume(t)
	}
	for _, ab := range ctr.Abstracts {
		if t, err := g.evalBool(&post, ab.E); err == nil {
			g.assumed["the result of "+short+" is a function of its receiver and arguments (abstracts clause)"] = true
			g.assume(t)
		} else {
			g.contractErr("call-"+short+"-abstracts", ab.Label, err)
		}
	}
	for _, em := range ctr.Emits {
		g.emitLog(&post, em)
	}
	g.applySets(&post, ctr)
	return rv
}

// ghost event logs: emits name(args...) appends a record to log `name`.
func (g *gen) emitLog(env *specEnv, em *EmitSpec) {
	cnt := "LOG|" + em.Log + "|n"
	n := g.heapGet(cnt, "Int")
	for i, a := range em.Args {
		v, err := g.evalSpec(env, a)
		if err != nil {
			g.unsupportedf("emits %s: %v", em.Log, err)
			return
		}
		k := fmt.Sprintf("LOG|%s|%d", em.Log, i)
		s := arr("Int", v.Sort)
		g.heapSet(k, s, app("store", g.heapGet(k, s), n, v.T))
	}
	g.heapSet(cnt, "Int", app("+", n, "1"))
}

func (g *gen) builtin(b *ssa.Builtin, c *ssa.CallCommon, args []Val, pos token.Pos, instr ssa.Instruction) Val {
	switch b.Name() {
	case "len":
		x := args[0]
		switch x.Sort {
		case "String":
			return intVal(app("str.len", x.T))
		case "Slice":
			return intVal(app("s_len", x.T))
		}
		if _, ok := x.Typ.Underlying().(*types.Map); ok {
			g.declareFun("maplen", []string{arr(g.st.sortOf(x.Typ.Underlying().(*types.Map).Key()), "Bool")}, "Int")
			ks, vs, ds, _ := g.mapSorts(x.Typ)
			t := app("maplen", app("select", g.heapGet(mapDomKey(ks, vs), ds), x.T))
			g.assumeGlobal(app(">=", t, "0"))
			return intVal(ite(eq(x.T, "0"), "0", t))
		}
		if a, ok := x.Typ.Underlying().(*types.Array); ok {
			return intVal(fmt.Sprint(a.Len()))
		}
		v := g.freshVal("len", types.Typ[types.Int])
		g.assumeGlobal(app(">=", v.T, "0"))
		return v
	case "cap":
		if args[0].Sort == "Slice" {
			return intVal(app("s_cap", args[0].T))
		}
		v := g.freshVal("cap", types.Typ[types.Int])
		g.assumeGlobal(app(">=", v.T, "0"))
		return v
	case "append":
		return g.appendBuiltin(c, args, pos)
	case "copy":
		dst, src := args[0], args[1]
		n := g.freshVal("copy_n", types.Typ[types.Int])
		srcLen := app("s_len", src.T)
		if src.Sort == "String" {
			srcLen = app("str.len", src.T)
		}
		g.assumeGlobal(eq(n.T, ite(app("<=", app("s_len", dst.T), srcLen), app("s_len", dst.T), srcLen)))
		if st, ok := dst.Typ.Underlying().(*types.Slice); ok {
			es := g.st.sortOf(st.Elem())
			k := elemKey(es)
			as := arr("Int", arr("Int", es))
			h := g.heapGet(k, as)
			nv := g.freshName("copy_dst")
			g.declare(nv, arr("Int", es))
			g.frameCheckPlace(&Place{Kind: plElem, Base: app("s_base", dst.T), Idx: "*", Elem: st.Elem()}, pos, g.label(pos, "copy", "call"))
			// elements outside [off, off+n) keep their values; inside they equal the source
			q := g.freshName("q")
			old := app("select", h, app("s_base", dst.T))
			inside := and(app("<=", app("s_off", dst.T), q), app("<", q, app("+", app("s_off", dst.T), n.T)))
			var srcAt string
			if src.Sort == "Slice" {
				srcAt = app("select", app("select", h, app("s_base", src.T)), sidx(app("s_off", src.T), app("-", q, app("s_off", dst.T))))
				g.assumeGlobal(fmt.Sprintf("(forall ((%s Int)) (= (select %s %s) (ite %s %s (select %s %s))))", q, nv, q, inside, srcAt, old, q))
			} else {
				g.assumeGlobal(fmt.Sprintf("(forall ((%s Int)) (=> (not %s) (= (select %s %s) (select %s %s))))", q, inside, nv, q, old, q))
			}
			g.heapSet(k, as, app("store", h, app("s_base", dst.T), nv))
		}
		return n
	case "delete":
		m, k := args[0], args[1]
		ks, vs, ds, _ := g.mapSorts(m.Typ)
		dk := mapDomKey(ks, vs)
		d := g.heapGet(dk, ds)
		g.frameCheck(m, pos)
		g.heapSet(dk, ds, app("store", d, m.T, app("store", app("select", d, m.T), k.T, "false")))
		return Val{}
	case "print", "println":
		return Val{}
	case "recover":
		return Val{T: "(mk_iface 0 0)", Sort: "Iface", Typ: types.NewInterfaceType(nil, nil)}
	case "min", "max":
		t := args[0].T
		for _, a := range args[1:] {
			if b.Name() == "min" {
				t = ite(app("<=", t, a.T), t, a.T)
			} else {
				t = ite(app(">=", t, a.T), t, a.T)
			}
		}
		return Val{T: t, Sort: args[0].Sort, Typ: args[0].Typ}
	case "ssa:wrapnilchk":
		g.nilCheck(args[0], pos, "method value receiver")
		return args[0]
	case "clear":
		g.havocAllHeap("clear")
		return Val{}
	case "close":
		return Val{}
	}
	g.unsupportedf("builtin %s", b.Name())
	if v, ok := instr.(ssa.Value); ok {
		return g.freshVal("builtin", v.Type())
	}
	return Val{}
}



// appendBuiltin: append(s, t...) — in place when capacity suffices (aliasing visible), fresh base otherwise.
func (g *gen) appendBuiltin(c *ssa.CallCommon, args []Val, pos token.Pos) Val {
	s, t := args[0], args[1]
	st := s.Typ.Underlying().(*types.Slice)
	es := g.st.sortOf(st.Elem())
	k := elemKey(es)
	as := arr("Int", arr("Int", es))
	h := g.heapGet(k, as)
	var tlen string
	if t.Sort == "String" {
		tlen = app("str.len", t.T)
	} else {
		tlen = app("s_len", t.T)
	}
	// constant-length second operand (the common append(s, x) case)?
	nconst := -1
	if sl, ok := c.Args[1].(*ssa.Slice); ok && sl.Low == nil && sl.High == nil {
		if pt, ok := sl.X.Type().Underlying().(*types.Pointer); ok {
			if a, ok := pt.Elem().Underlying().(*types.Array); ok && a.Len() <= 8 {
				nconst = int(a.Len())
			}
		}
	}
	if cst, ok := c.Args[1].(*ssa.Const); ok && cst.Value == nil {
		nconst = 0
	}
	newLen := app("+", app("s_len", s.T), tlen)
	inPlace := g.define("append_inplace", "Bool", and(app("<=", newLen, app("s_cap", s.T)), not(eq(app("s_base", s.T), "0"))))
	fresh := g.newAlloc("append_base")
	resBase := g.freshName("append_rbase")
	g.declare(resBase, "Int")
	g.assumeGlobal(eq(resBase, ite(inPlace, app("s_base", s.T), fresh)))
	resOff := g.freshName("append_roff")
	g.declare(resOff, "Int")
	g.assumeGlobal(eq(resOff, ite(inPlace, app("s_off", s.T), "0")))
	ncap := g.freshName("append_cap")
	g.declare(ncap, "Int")
	g.assumeGlobal(app(">=", ncap, newLen))
	resCap := ite(inPlace, app("s_cap", s.T), ncap)
	res := g.define("append_res", "Slice", app("mk_slice", resBase, resOff, newLen, resCap))
	g.frameCheckAppend(s, inPlace, pos)
	// contents
	oldArr := app("select", h, app("s_base", s.T))
	na := g.freshName("append_arr")
	g.declare(na, arr("Int", es))
	q := g.freshName("q")
	sOff, sLen := app("s_off", s.T), app("s_len", s.T)
	tailStart := sidx(sOff, sLen)
	elemOfT := func(j string) string {
		return app("select", app("select", h, app("s_base", t.T)), sidx(app("s_off", t.T), j))
	}
	if nconst >= 0 && t.Sort == "Slice" {
		inPl := oldArr
		for j := 0; j < nconst; j++ {
			inPl = app("store", inPl, sidx(tailStart, fmt.Sprint(j)), elemOfT(fmt.Sprint(j)))
		}
		g.assumeGlobal(implies(inPlace, eq(na, inPl)))
		// facts that hold in both cases, stated uniformly over the result's own offset
		g.assumeGlobal(fmt.Sprintf("(forall ((%s Int)) (! (=> (and (<= 0 %s) (< %s %s)) (= (select %s %s) (select %s %s))) :pattern ((select %s %s))))", q, q, q, sLen, na, sidx(resOff, q), oldArr, sidx(sOff, q), na, sidx(resOff, q)))
		for j := 0; j < nconst; j++ {
			g.assumeGlobal(eq(app("select", na, sidx(resOff, sidx(sLen, fmt.Sprint(j)))), elemOfT(fmt.Sprint(j))))
		}
	} else {
		// prefix
		g.assumeGlobal(implies(not(inPlace), fmt.Sprintf("(forall ((%s Int)) (! (=> (and (<= 0 %s) (< %s %s)) (= (select %s %s) (select %s %s))) :pattern ((select %s %s))))", q, q, q, sLen, na, q, oldArr, sidx(sOff, q), na, q)))
		g.assumeGlobal(implies(inPlace, fmt.Sprintf("(forall ((%s Int)) (! (=> (or (< %s %s) (>= %s (+ %s %s))) (= (select %s %s) (select %s %s))) :pattern ((select %s %s))))", q, q, tailStart, q, tailStart, tlen, na, q, oldArr, q, na, q)))
		if t.Sort == "Slice" {
			g.assumeGlobal(implies(not(inPlace), fmt.Sprintf("(forall ((%s Int)) (=> (and (<= 0 %s) (< %s %s)) (= (select %s %s) %s)))", q, q, q, tlen, na, sidx(sLen, q), elemOfT(q))))
			g.assumeGlobal(implies(inPlace, fmt.Sprintf("(forall ((%s Int)) (=> (and (<= 0 %s) (< %s %s)) (= (select %s %s) %s)))", q, q, q, tlen, na, sidx(tailStart, q), elemOfT(q))))
		}
	}
	g.heapSet(k, as, app("store", h, resBase, na))
	return Val{T: res, Sort: "Slice", Typ: s.Typ}
}

// an append that fits into the capacity writes the backing array of its first operand
func (g *gen) frameCheckAppend(s Val, inPlace string, pos token.Pos) {
	if !g.frameMode {
		return
	}
	st := s.Typ.Underlying().(*types.Slice)
	p := &Place{Kind: plElem, Base: app("s_base", s.T), Idx: "*", Elem: st.Elem()}
	for _, a := range g.allocs {
		if a == p.Base {
			return
		}
	}
	g.oblige("frame", g.label(pos, "append", "call"), implies(inPlace, g.allowedWrite(p)), pos, g.frameProps)
}

// ---------------------------------------------------------------------------
// intrinsics: meaning of a few standard-library functions, stated directly in SMT
// (these are assumptions about dependencies and are listed in the evidence)

func (g *gen) intrinsic(key string, callee *ssa.Function, args []Val, pos token.Pos) (Val, bool) {
	b := func(t string) (Val, bool) { return boolVal(t), true }
	switch key {
	case "strings.HasPrefix":
		return b(app("str.prefixof", args[1].T, args[0].T))
	case "strings.HasSuffix":
		return b(app("str.suffixof", args[1].T, args[0].T))
	case "strings.Contains":
		return b(app("str.contains", args[0].T, args[1].T))
	case "strings.TrimPrefix":
		return strVal(ite(app("str.prefixof", args[1].T, args[0].T), app("str.substr", args[0].T, app("str.len", args[1].T), app("-", app("str.len", args[0].T), app("str.len", args[1].T))), args[0].T)), true
	case "strings.TrimSuffix":
		return strVal(ite(app("str.suffixof", args[1].T, args[0].T), app("str.substr", args[0].T, "0", app("-", app("str.len", args[0].T), app("str.len", args[1].T))), args[0].T)), true
	case "strings.Index":
		return intVal(app("str.indexof", args[0].T, args[1].T, "0")), true
	case "strings.Replace":
		// only n == 1 has a direct SMT counterpart
		if args[3].T == "1" {
			r := app("str.replace", args[0].T, args[1].T, args[2].T)
			// valid lemma about str.replace that the string solvers do not always find by themselves
			g.assumeGlobal(implies(app("str.prefixof", args[1].T, args[0].T),
				eq(r, app("str.++", args[2].T, app("str.substr", args[0].T, app("str.len", args[1].T), app("-", app("str.len", args[0].T), app("str.len", args[1].T)))))))
			return strVal(r), true
		}
	case "fmt.Sprintf":
		// a constant format made of literal text and %s/%v verbs applied to string operands is a concatenation
		if len(callee.Signature.Params().At(0).Name()) >= 0 {
			if v, ok := g.sprintfConcat(g.curCall); ok {
				return v, true
			}
		}
	case "strings.EqualFold":
	case "strconv.Itoa":
		return strVal(ite(app(">=", args[0].T, "0"), app("str.from_int", args[0].T), app("str.++", "\"-\"", app("str.from_int", app("-", args[0].T))))), true
	}
	return Val{}, false
}

// ---------------------------------------------------------------------------
// inferred mod sets (heap keys a repository function may write, transitively)

func (e *Engine) modSetOf(fn *ssa.Function) map[string]bool {
	if m, ok := e.modset[fn]; ok {
		return m
	}
	m := map[string]bool{}
	e.modset[fn] = m // cycle guard: recursion sees the partial set; fixpoint below
	changed := true
	for changed {
		changed = false
		add := func(k string) {
			if !m[k] {
				m[k] = true
				changed = true
			}
		}
		e.scanWrites(fn, add)
	}
	return m
}

// oldWriteSet: the keys fn may write on objects that it (or a function it calls) did not allocate itself. Keys of modSetOf(fn)
// that are not in this set are only written on fresh objects: everything that existed before the call keeps its value there.
func (e *Engine) oldWriteSet(fn *ssa.Function) map[string]bool {
	if e.oldset == nil {
		e.oldset = map[*ssa.Function]map[string]bool{}
	}
	if m, ok := e.oldset[fn]; ok {
		return m
	}
	m := map[string]bool{}
	e.oldset[fn] = m
	changed := true
	for changed {
		changed = false
		e.scanWritesOld(fn, func(string) {}, func(k string) {
			if !m[k] {
				m[k] = true
				changed = true
			}
		})
	}
	return m
}

func (e *Engine) scanWrites(fn *ssa.Function, add func(string)) {
	e.scanWritesOld(fn, add, nil)
}

func (e *Engine) scanWritesOld(fn *ssa.Function, add func(string), addOld func(string)) {
	old := func(k string) {
		if addOld != nil {
			addOld(k)
		}
	}
	st := newSortTable()
	var addrKey func(v ssa.Value) []string
	addrKey = func(v ssa.Value) []string {
		switch v := v.(type) {
		case *ssa.FieldAddr:
			pt := v.X.Type().Underlying().(*types.Pointer).Elem()
			s, _ := structOf(pt)
			f := s.Field(v.Field)
			// a field inside a struct value stored in a slice element / cell: the root decides
			if inner := addrKey(v.X); len(inner) > 0 && !isObjectPtr(v.X) {
				return inner
			}
			if _, ok := structOf(f.Type()); ok {
				return allFieldKeys(st, f.Type())
			}
			return []string{fieldKey(st.structName(pt), f.Name())}
		case *ssa.IndexAddr:
			switch u := v.X.Type().Underlying().(type) {
			case *types.Slice:
				return []string{elemKey(st.sortOf(u.Elem()))}
			case *types.Pointer:
				a := u.Elem().Underlying().(*types.Array)
				return []string{elemKey(st.sortOf(a.Elem()))}
			}
		}
		pt, ok := v.Type().Underlying().(*types.Pointer)
		if !ok {
			return []string{"*"}
		}
		if _, ok := structOf(pt.Elem()); ok {
			return allFieldKeys(st, pt.Elem())
		}
		if a, ok := pt.Elem().Underlying().(*types.Array); ok {
			return []string{elemKey(st.sortOf(a.Elem()))}
		}
		return []string{cellKey(st.sortOf(pt.Elem()))}
	}
	for _, b := range fn.Blocks {
		for _, ins := range b.Instrs {
			switch ins := ins.(type) {
			case *ssa.Store:
				if _, ok := ins.Addr.(*ssa.Alloc); ok {
					// local cell: still a heap key in our model (captured variables), include
				}
				for _, k := range addrKey(ins.Addr) {
					add(k)
					if !rootIsAlloc(ins.Addr, 0) {
						old(k)
					}
				}
			case *ssa.MapUpdate:
				mt := ins.Map.Type().Underlying().(*types.Map)
				ks, vs := st.sortOf(mt.Key()), st.sortOf(mt.Elem())
				add(mapDomKey(ks, vs))
				add(mapValKey(ks, vs))
				if _, fresh := ins.Map.(*ssa.MakeMap); !fresh {
					old(mapDomKey(ks, vs))
					old(mapValKey(ks, vs))
				}
			case ssa.CallInstruction:
				c := ins.Common()
				if bi, ok := c.Value.(*ssa.Builtin); ok {
					switch bi.Name() {
					case "append", "copy":
						if sl, ok := c.Args[0].Type().Underlying().(*types.Slice); ok {
							add(elemKey(st.sortOf(sl.Elem())))
							old(elemKey(st.sortOf(sl.Elem())))
						}
					case "delete":
						mt := c.Args[0].Type().Underlying().(*types.Map)
						add(mapDomKey(st.sortOf(mt.Key()), st.sortOf(mt.Elem())))
						old(mapDomKey(st.sortOf(mt.Key()), st.sortOf(mt.Elem())))
					case "clear":
						add("*")
						old("*")
					}
					continue
				}
				if _, isGo := ins.(*ssa.Go); isGo {
					// writes of the spawned function happen "during" the caller as far as frames are concerned
				}
				if c.IsInvoke() {
					for k := range e.invokeModSet(c) {
						add(k)
						old(k)
					}
					continue
				}
				var callee *ssa.Function
				switch v := c.Value.(type) {
				case *ssa.Function:
					callee = v
				case *ssa.MakeClosure:
					callee = v.Fn.(*ssa.Function)
				}
				if callee == nil {
					add("*")
					old("*")
					continue
				}
				if e.inRepo(callee) {
					if ctr := e.ctrs[funcKey(callee)]; ctr != nil && ctr.Pure {
						continue
					}
					for k := range e.modSetOf(callee) {
						add(k)
					}
					if addOld != nil {
						if len(callee.FreeVars) > 0 {
							// a closure writes variables of its parent: treat all of its writes as writes to existing objects
							for k := range e.modSetOf(callee) {
								old(k)
							}
						} else {
							for k := range e.oldWriteSet(callee) {
								old(k)
							}
						}
					}
				} else {
					// external: places passed by address may be written
					for _, a := range c.Args {
						switch a.(type) {
						case *ssa.FieldAddr, *ssa.IndexAddr:
							for _, k := range addrKey(a) {
								add(k)
								if !rootIsAlloc(a, 0) {
									old(k)
								}
							}
						}
					}
				}
			case *ssa.MakeMap:
				mt := ins.Type().Underlying().(*types.Map)
				add(mapDomKey(st.sortOf(mt.Key()), st.sortOf(mt.Elem())))
			case *ssa.MakeSlice:
				add(elemKey(st.sortOf(ins.Type().Underlying().(*types.Slice).Elem())))
			case *ssa.Alloc:
				pt := ins.Type().(*types.Pointer).Elem()
				if _, ok := structOf(pt); ok {
					for _, k := range allFieldKeys(st, pt) {
						add(k)
					}
				} else if a, ok := pt.Underlying().(*types.Array); ok {
					add(elemKey(st.sortOf(a.Elem())))
				} else {
					add(cellKey(st.sortOf(pt)))
				}
			}
		}
	}
	for _, a := range fn.AnonFuncs {
		_ = a // closures are accounted for where they are called
	}
}

func isObjectPtr(v ssa.Value) bool {
	switch v.(type) {
	case *ssa.IndexAddr:
		return false
	case *ssa.FieldAddr:
		fa := v.(*ssa.FieldAddr)
		return isObjectPtr(fa.X)
	case *ssa.Alloc:
		pt := v.Type().(*types.Pointer).Elem()
		_, ok := structOf(pt)
		return ok
	}
	return true
}

func allFieldKeys(st *sortTable, t types.Type) []string {
	s, ok := structOf(t)
	if !ok {
		return nil
	}
	name := st.structName(t)
	var out []string
	for i := 0; i < s.NumFields(); i++ {
		f := s.Field(i)
		if _, ok := structOf(f.Type()); ok {
			out = append(out, allFieldKeys(st, f.Type())...)
		} else {
			out = append(out, fieldKey(name, f.Name()))
		}
	}
	return out
}

// invokeModSet: union over the repository's types implementing the interface method.
func (e *Engine) invokeModSet(c *ssa.CallCommon) map[string]bool {
	out := map[string]bool{}
	iface, ok := c.Value.Type().Underlying().(*types.Interface)
	if !ok {
		out["*"] = true
		return out
	}
	named, _ := types.Unalias(c.Value.Type()).(*types.Named)
	if named == nil || named.Obj().Pkg() == nil || !strings.HasPrefix(named.Obj().Pkg().Path(), repoMod) {
		return out // external interface: frame assumption
	}
	for _, k := range e.sortedFuncKeys() {
		f := e.funcs[k]
		if f.Signature.Recv() == nil || f.Name() != c.Method.Name() {
			continue
		}
		rt := f.Signature.Recv().Type()
		if types.Implements(rt, iface) {
			for k := range e.modSetOf(f) {
				out[k] = true
			}
		}
	}
	return out
}

var _ = strconv.Itoa

// frameCheckKeys: a callee without an `assigns` clause may write whole heap arrays; inside a function
// that has a frame this cannot be justified location by location.
func (g *gen) frameCheckKeys(keys map[string]bool, pos token.Pos, callee string) {
	if !g.frameMode || len(keys) == 0 {
		return
	}
	var ks []string
	for k := range keys {
		ks = append(ks, k)
	}
	sort.Strings(ks)
	g.oblige("frame", "call "+callee+" has no assigns clause (may write "+strings.Join(ks, ",")+")", "false", pos, g.frameProps)
}

// varargsOf recovers the operands packed into a variadic []any argument built by the compiler
// (new [n]any; &t[i]; store; slice t[:]) when the pattern is syntactically evident.
func varargsOf(v ssa.Value) ([]ssa.Value, bool) {
	sl, ok := v.(*ssa.Slice)
	if !ok || sl.Low != nil || sl.High != nil {
		return nil, false
	}
	al, ok := sl.X.(*ssa.Alloc)
	if !ok {
		return nil, false
	}
	at, ok := al.Type().(*types.Pointer).Elem().Underlying().(*types.Array)
	if !ok {
		return nil, false
	}
	out := make([]ssa.Value, at.Len())
	for _, ref := range *al.Referrers() {
		ia, ok := ref.(*ssa.IndexAddr)
		if !ok {
			continue
		}
		c, ok := ia.Index.(*ssa.Const)
		if !ok {
			return nil, false
		}
		for _, r2 := range *ia.Referrers() {
			if st, ok := r2.(*ssa.Store); ok && st.Addr == ssa.Value(ia) {
				val := st.Val
				if mi, ok := val.(*ssa.MakeInterface); ok {
					val = mi.X
				}
				out[c.Int64()] = val
			}
		}
	}
	for _, o := range out {
		if o == nil {
			return nil, false
		}
	}
	return out, true
}

func (g *gen) sprintfConcat(c *ssa.CallCommon) (Val, bool) {
	if c == nil || len(c.Args) != 2 {
		return Val{}, false
	}
	fc, ok := c.Args[0].(*ssa.Const)
	if !ok || fc.Value == nil {
		return Val{}, false
	}
	format := constant.StringVal(fc.Value)
	ops, ok := varargsOf(c.Args[1])
	if !ok {
		if cst, isC := c.Args[1].(*ssa.Const); !isC || cst.Value != nil {
			return Val{}, false
		}
	}
	var parts []string
	lit := ""
	k := 0
	for i := 0; i < len(format); i++ {
		if format[i] != '%' {
			lit += string(format[i])
			continue
		}
		if i+1 >= len(format) {
			return Val{}, false
		}
		i++
		switch format[i] {
		case '%':
			lit += "%"
		case 's', 'v':
			if k >= len(ops) {
				return Val{}, false
			}
			b, isBasic := ops[k].Type().Underlying().(*types.Basic)
			if !isBasic || b.Info()&types.IsString == 0 {
				return Val{}, false
			}
			if lit != "" {
				parts = append(parts, smtString(lit))
				lit = ""
			}
			parts = append(parts, g.val(ops[k]).T)
			k++
		default:
			return Val{}, false
		}
	}
	if k != len(ops) {
		return Val{}, false
	}
	if lit != "" {
		parts = append(parts, smtString(lit))
	}
	switch len(parts) {
	case 0:
		return strVal(`""`), true
	case 1:
		return strVal(parts[0]), true
	}
	return strVal(app("str.++", parts...)), true
}

// ifaceMethodContract finds a contract written for "<pkg>.*.<Method>": one contract for a method that several
// interfaces of a package share (the astwalk visitor interfaces all embed EnterFile/EnterFunc/skipChilds).
func (e *Engine) ifaceMethodContract(t types.Type, method string) *Contract {
	n, ok := types.Unalias(t).(*types.Named)
	if !ok || n.Obj().Pkg() == nil {
		return nil
	}
	return e.ctrs[shortPkg(n.Obj().Pkg().Path())+".*."+method]
}


// astcastModel: astcast.ToX(n) is n's payload when n holds a *ast.X, and otherwise the package-level sentinel
// astcast.NilX, an all-zero node (its fields read as nil / empty / ""); the sentinel is not a tree node.
func (g *gen) astcastModel(sig *types.Signature, args []Val, r Val) {
	if len(args) != 1 || args[0].Sort != "Iface" || sig.Results().Len() != 1 {
		return
	}
	rt := sig.Results().At(0).Type()
	pt, ok := rt.Underlying().(*types.Pointer)
	if !ok {
		return
	}
	st, ok := pt.Elem().Underlying().(*types.Struct)
	if !ok {
		return
	}
	sent := g.sentinelFor(rt)
	if sent == "" {
		return
	}
	_ = st
	hit := eq(app("i_tag", args[0].T), fmt.Sprint(g.st.tagOf(rt)))
	g.assume(ite(hit, eq(r.T, app("i_val", args[0].T)), eq(r.T, sent)))
}

// sentinelFor declares the package-level all-zero node astcast.NilX for pointer type *ast.X (once): non-nil, not a tree
// node, every field reads as its zero value; the type checker has recorded nothing for it.
func (g *gen) sentinelFor(rt types.Type) string {
	pt, ok := rt.Underlying().(*types.Pointer)
	if !ok {
		return ""
	}
	st, ok := pt.Elem().Underlying().(*types.Struct)
	if !ok {
		return ""
	}
	sname := g.st.structName(pt.Elem())
	sent := "sentinel_" + sanitize(sname)
	if g.declared[sent] {
		return sent
	}
	g.declare(sent, "Int")
	g.assumeGlobal(not(eq(sent, "0")))
	if g.astValid {
		g.declTnode()
		g.assumeGlobal(not(app("tnode", sent)))
	}
	for i := 0; i < st.NumFields(); i++ {
		f := st.Field(i)
		if _, isStruct := structOf(f.Type()); isStruct {
			continue
		}
		s := g.st.sortOf(f.Type())
		k := fieldKey(sname, f.Name())
		// sentinels are never written: the fact is stated about the entry heap and about the current one
		g.assumeGlobal(eq(app("select", g.heapInit(k, arr("Int", s)), sent), g.st.zero(f.Type())))
		if cur := g.heapGet(k, arr("Int", s)); cur != g.heapInit(k, arr("Int", s)) {
			g.assume(eq(app("select", cur, sent), g.st.zero(f.Type())))
		}
	}
	if strings.HasSuffix(sname, "ast.Ident") {
		// the type checker records nothing for an identifier that is not part of the checked files
		g.declareFun("spec_infoObjectOf", []string{"Int", "Int"}, "Iface")
		q := g.freshName("inf")
		g.assumed["theory go-types: Info.ObjectOf(astcast.NilIdent) is nil"] = true
		g.assumeGlobal(fmt.Sprintf("(forall ((%s Int)) (! (= (i_tag (spec_infoObjectOf %s %s)) 0) :pattern ((spec_infoObjectOf %s %s))))", q, q, sent, q, sent))
	}
	return sent
}


// linkDynToContracts: if the function value called here is a pure function of the repository that is verified against
// a contract (no captured variables, identical signature), then that contract's postconditions hold for this call:
//	f == fnid(K)  ==>  (requires_K(args) ==> ensures_K(args, result))
// The identity f == fnid(K) has to be established by the caller (typically as a precondition that its own call sites discharge).
func (g *gen) linkDynToContracts(fv Val, sig *types.Signature, args []Val, rv Val) {
	for _, k := range g.e.sortedFuncKeys() {
		ctr := g.e.ctrs[k]
		if ctr == nil || ctr.Trusted || !ctr.Pure || len(ctr.Ensures) == 0 {
			continue
		}
		fn := g.e.funcs[k]
		if fn == nil || len(fn.FreeVars) != 0 || fn.Signature.Recv() != nil || !types.Identical(fn.Signature, sig) {
			continue
		}
		// only closures of the same top-level function are candidates (keeps the scripts small)
		if fn.Parent() == nil || g.rootFn() != rootOf(fn) {
			continue
		}
		env := g.specEnvHere()
		env.calleeMode = true
		env.fn = nil
		if rootOf(fn).Pkg != nil {
			env.pkg = rootOf(fn).Pkg.Pkg
		}
		for i := 0; i < sig.Params().Len() && i < len(args); i++ {
			env.vars[fn.Params[i].Name()] = args[i]
			env.vars[fmt.Sprintf("arg%d", i)] = args[i]
		}
		pre := "true"
		okAll := true
		for _, r := range ctr.Requires {
			t, err := g.evalBool(env, r.E)
			if err != nil {
				okAll = false
				break
			}
			pre = and(pre, t)
		}
		if !okAll {
			continue
		}
		g.bindResults(env, sig, []Val{rv})
		for _, en := range ctr.Ensures {
			t, err := g.evalBool(env, en.E)
			if err != nil {
				continue
			}
			g.assumed["a call through a function value that is "+k+" satisfies that function's verified contract"] = true
			g.assume(implies(and(eq(fv.T, funcID(k)), pre), t))
		}
	}
}

func rootOf(fn *ssa.Function) *ssa.Function {
	for fn.Parent() != nil {
		fn = fn.Parent()
	}
	return fn
}


// mayBeAstcastResult: the value is (or may be, through a phi, a local variable or a sentinel-tolerant parameter of the
// enclosing function) the result of astcast.ToX, which is the all-zero sentinel node on a type mismatch.
func mayBeAstcastResult(v ssa.Value, e *Engine, fn *ssa.Function) bool {
	seen := map[ssa.Value]bool{}
	var rec func(v ssa.Value, d int) bool
	rec = func(v ssa.Value, d int) bool {
		if d > 4 || seen[v] {
			return false
		}
		seen[v] = true
		switch x := v.(type) {
		case *ssa.Call:
			if c := x.Call.StaticCallee(); c != nil && strings.HasPrefix(extKey(c), "github.com/go-toolsmith/astcast.To") {
				return true
			}
		case *ssa.Phi:
			for _, ed := range x.Edges {
				if rec(ed, d+1) {
					return true
				}
			}
		case *ssa.Parameter:
			for pi, pp := range fn.Params {
				if pp == x && e.sentinelParam(fn, pi) {
					return true
				}
			}
		case *ssa.UnOp:
			if a, ok := x.X.(*ssa.Alloc); ok && a.Referrers() != nil {
				for _, r := range *a.Referrers() {
					if st, ok := r.(*ssa.Store); ok && st.Addr == ssa.Value(a) && rec(st.Val, d+1) {
						return true
					}
				}
			}
		}
		return false
	}
	return rec(v, 0)
}

// ---------------------------------------------------------------------------
// inlining of small uncontracted callees

const inlineMaxInstrs = 80

// canInline: the callee has no contract, is not recursive, has a body without loops, defers, goroutines or closures of
// its own, is small, and the function under verification carries an explicit contract (pure sweep functions keep the
// modular treatment, so their ledgers do not depend on their callees' bodies).
func (g *gen) canInline(callee *ssa.Function) bool {
	if os.Getenv("VERIF_NO_INLINE") != "" {
		return false
	}
	root := g.e.ctrs[g.key]
	if root == nil || root.terminationOnly() || g.sweepFrames != "" || g.onCall != nil {
		return false // (the frame sweep and the Warn-site sweep reason at call boundaries by design)
	}
	if len(callee.Blocks) == 0 || g.e.sccIndex()[callee] != 0 || len(callee.AnonFuncs) > 0 || callee.Recover != nil {
		return false
	}
	depth := 0
	if g.inl != nil {
		depth = g.inl.depth
	}
	if depth >= 2 {
		return false
	}
	n := 0
	for _, b := range callee.Blocks {
		for _, s := range b.Succs {
			if s.Dominates(b) {
				return false // a loop
			}
		}
		for _, ins := range b.Instrs {
			n++
			switch ins.(type) {
			case *ssa.Defer, *ssa.Go, *ssa.Select, *ssa.MakeClosure, *ssa.Range, *ssa.Next:
				return false
			}
		}
	}
	return n <= inlineMaxInstrs
}

func (g *gen) inlineCall(callee *ssa.Function, args []Val, bindings []Val, sig *types.Signature, pos token.Pos) Val {
	g.assumed["uncontracted callee executed in place: "+funcKey(callee)] = true
	g.inlineSeq++
	depth := 1
	callerBlock := g.curBlock
	if g.inl != nil {
		depth = g.inl.depth + 1
		callerBlock = g.inl.callerBlock
	}
	ctx := &inlineCtx{prefix: fmt.Sprintf("i%d_", g.inlineSeq), callerBlock: callerBlock, entryReach: g.curReach, depth: depth}
	saveFn, saveBlock, saveReach, saveInl, saveCtr, saveIface, saveRet := g.fn, g.curBlock, g.curReach, g.inl, g.ctr, g.ifaceCtrs, g.retVals
	saveMeasure, saveDeferred, saveSafety := g.entryMeasure, g.deferred, g.options.safety
	g.fn, g.inl, g.ctr, g.ifaceCtrs, g.retVals, g.entryMeasure, g.deferred = callee, ctx, nil, nil, nil, "", nil
	// the callee's own panic-freedom is decided where it always was: in the safety sweep of the callee itself
	g.options.safety = false
	for _, b := range callee.Blocks {
		delete(g.reach, b)
		delete(g.out, b)
	}
	for i, p := range callee.Params {
		if i < len(args) {
			a := args[i]
			if a.Typ == nil {
				a.Typ = p.Type()
			}
			g.vals[p] = a
		}
	}
	for i, fv := range callee.FreeVars {
		if i < len(bindings) {
			g.vals[fv] = bindings[i]
		}
	}
	if g.nilArgs {
		// safety sweep: what the callee would assume of its arguments at entry is what the caller has just been asked to
		// show at the call (nilarg obligations); it is assumed for the inlined body as it would be for the separate function
		env := g.specEnvHere()
		env.calleeMode = true
		env.fn = nil
		if callee.Pkg != nil {
			env.pkg = callee.Pkg.Pkg
		}
		for i, p := range callee.Params {
			if i < len(args) {
				env.vars[p.Name()] = g.vals[p]
			}
		}
		for _, r := range g.e.sweepContract(callee, "C01").Requires {
			if t, err := g.evalBool(env, r.E); err == nil {
				g.assume(t)
			}
		}
	}
	for _, b := range g.rpo() {
		g.block(b)
	}
	rets := ctx.rets
	g.fn, g.curBlock, g.inl, g.ctr, g.ifaceCtrs, g.retVals, g.entryMeasure, g.deferred = saveFn, saveBlock, saveInl, saveCtr, saveIface, saveRet, saveMeasure, saveDeferred
	g.options.safety = saveSafety
	if len(rets) == 0 {
		// the callee never returns (it always panics): the code after the call is unreachable
		g.curReach = saveReach
		g.assume("false")
		return g.resultVal(sig, func(i int, t types.Type) Val { return g.freshVal("ret_"+callee.Name(), t) })
	}
	// join the return points
	var cs []string
	for _, r := range rets {
		cs = append(cs, r.reach)
	}
	after := g.define(ctx.prefix+"returned", "Bool", or(cs...))
	keys := map[string]bool{}
	for _, r := range rets {
		for k := range r.st.heap {
			keys[k] = true
		}
	}
	ks := make([]string, 0, len(keys))
	for k := range keys {
		ks = append(ks, k)
	}
	sort.Strings(ks)
	ns := &state{heap: map[string]string{}}
	for _, k := range ks {
		term := ""
		for i := len(rets) - 1; i >= 0; i-- {
			v, ok := rets[i].st.heap[k]
			if !ok {
				v = g.heapInit(k, g.heapSort[k])
			}
			if term == "" {
				term = v
			} else {
				term = ite(rets[i].reach, v, term)
			}
		}
		if strings.HasPrefix(term, "(") {
			term = g.define("Hm_"+k, g.heapSort[k], term)
		}
		ns.heap[k] = term
	}
	g.cur = ns
	g.curReach = after
	// everything after the call happens only if the callee returned
	_ = saveReach
	return g.resultVal(sig, func(i int, t types.Type) Val {
		term := ""
		var first Val
		for j := len(rets) - 1; j >= 0; j-- {
			if i >= len(rets[j].vals) {
				continue
			}
			v := rets[j].vals[i]
			if term == "" {
				term, first = v.T, v
			} else {
				term = ite(rets[j].reach, v.T, term)
			}
		}
		if term == "" {
			return g.freshVal("ret_"+callee.Name(), t)
		}
		n := g.define(ctx.prefix+"ret", first.Sort, term)
		out := Val{T: n, Sort: first.Sort, Typ: t}
		if len(rets) == 1 {
			out.Fn, out.Place = first.Fn, first.Place
		}
		return out
	})
}
