package main

import (
	"fmt"
	"go/ast"
	"go/parser"
	"go/token"
	"os"
	"path/filepath"
	"strconv"
	"strings"
)

// C17, first clause: the shipped rule data corresponds to the rule source. Decided statically by the generator on the two
// artefacts (checkers/rules/rules.go read with go/parser, checkers/rulesdata/rulesdata.go read by rulesir.go), nothing is
// executed: for every rule-group function of the source and every `m.Match(...)` chain in it there is exactly one rule of the
// same group with the same line in the data, carrying the same patterns in the same order, the same report and suggestion
// templates, the same location variable and a filter whose source text is the argument of Where; the data has no group
// or rule without a source; name, tags, summary, before/after of a group are the //doc: comments of its function.
// What the precompiler does with local helper closures inside a filter (it inlines them) is not re-derived: filters are
// compared by their recorded source text only.

type srcRule struct {
	line                int
	patterns            []string
	report, suggest, at string
	where               string
	hasWhere            bool
}

type srcGroup struct {
	name, summary, before, after, note string
	tags                                []string
	rules                               []*srcRule
	line                                int
}

func readRuleSource(repo string) ([]*srcGroup, error) {
	path := filepath.Join(repo, "checkers", "rules", "rules.go")
	data, err := os.ReadFile(path)
	if err != nil {
		return nil, err
	}
	fset := token.NewFileSet()
	f, err := parser.ParseFile(fset, path, data, parser.ParseComments)
	if err != nil {
		return nil, err
	}
	text := func(n ast.Node) string { return string(data[fset.Position(n.Pos()).Offset:fset.Position(n.End()).Offset]) }
	var out []*srcGroup
	for _, d := range f.Decls {
		fd, ok := d.(*ast.FuncDecl)
		if !ok || fd.Recv != nil || fd.Type.Params == nil || len(fd.Type.Params.List) != 1 {
			continue
		}
		if sel, ok := fd.Type.Params.List[0].Type.(*ast.SelectorExpr); !ok || sel.Sel.Name != "Matcher" {
			continue
		}
		g := &srcGroup{name: fd.Name.Name, line: fset.Position(fd.Pos()).Line}
		if fd.Doc != nil {
			for _, c := range fd.Doc.List {
				t := strings.TrimPrefix(c.Text, "//")
				switch {
				case strings.HasPrefix(t, "doc:summary"):
					g.summary = strings.TrimSpace(strings.TrimPrefix(t, "doc:summary"))
				case strings.HasPrefix(t, "doc:tags"):
					g.tags = strings.Fields(strings.TrimPrefix(t, "doc:tags"))
				case strings.HasPrefix(t, "doc:before"):
					g.before = strings.TrimSpace(strings.TrimPrefix(t, "doc:before"))
				case strings.HasPrefix(t, "doc:after"):
					g.after = strings.TrimSpace(strings.TrimPrefix(t, "doc:after"))
				case strings.HasPrefix(t, "doc:note"):
					g.note = strings.TrimSpace(strings.TrimPrefix(t, "doc:note"))
				}
			}
		}
		// every expression statement of the body that is a call chain rooted at m.Match(...)
		ast.Inspect(fd.Body, func(n ast.Node) bool {
			es, ok := n.(*ast.ExprStmt)
			if !ok {
				return true
			}
			r := &srcRule{}
			cur, ok := es.X.(*ast.CallExpr)
			found := false
			for ok {
				sel, isSel := cur.Fun.(*ast.SelectorExpr)
				if !isSel {
					break
				}
				strArg := func() string {
					if len(cur.Args) == 1 {
						if bl, ok := cur.Args[0].(*ast.BasicLit); ok {
							s, _ := strconv.Unquote(bl.Value)
							return s
						}
					}
					return ""
				}
				switch sel.Sel.Name {
				case "Report":
					r.report = strArg()
				case "Suggest":
					r.suggest = strArg()
				case "Where":
					if len(cur.Args) == 1 {
						r.where = text(cur.Args[0])
						r.hasWhere = true
					}
				case "At":
					if len(cur.Args) == 1 {
						if ix, ok := cur.Args[0].(*ast.IndexExpr); ok {
							if bl, ok := ix.Index.(*ast.BasicLit); ok {
								r.at, _ = strconv.Unquote(bl.Value)
							}
						}
					}
				case "Match":
					if id, ok := sel.X.(*ast.Ident); ok && id.Name == "m" {
						found = true
						r.line = fset.Position(cur.Pos()).Line
						for _, a := range cur.Args {
							if bl, ok := a.(*ast.BasicLit); ok {
								s, _ := strconv.Unquote(bl.Value)
								r.patterns = append(r.patterns, s)
							}
						}
					}
				}
				cur, ok = sel.X.(*ast.CallExpr)
			}
			if found {
				g.rules = append(g.rules, r)
			}
			return false
		})
		out = append(out, g)
	}
	return out, nil
}

func init() {
	registerHook("C17", func(c *checkCtx) {
		data, ok := c.ruleData()
		if !ok {
			return
		}
		src, err := readRuleSource(c.e.repo)
		if err != nil {
			c.direct = append(c.direct, &directResult{Name: "rules/source-readable", OK: false, Detail: err.Error()})
			return
		}
		byName := map[string]*irGroup{}
		for _, g := range data {
			byName[g.Name] = g
		}
		seen := map[string]bool{}
		add := func(name string, ok bool, detail string) {
			c.direct = append(c.direct, &directResult{Name: name, OK: ok, Detail: detail})
		}
		eqStrs := func(a, b []string) bool {
			if len(a) != len(b) {
				return false
			}
			for i := range a {
				if a[i] != b[i] {
					return false
				}
			}
			return true
		}
		nrules := 0
		for _, sg := range src {
			seen[sg.name] = true
			dg := byName[sg.name]
			base := "rules/" + sg.name
			if dg == nil {
				add(base+"/shipped", false, "the rule source defines group "+sg.name+" but the shipped rule data has no such group")
				continue
			}
			add(base+"/doc-matches-source", dg.Line == sg.line && eqStrs(dg.Tags, sg.tags), fmt.Sprintf("source: line %d tags %v; data: line %d tags %v", sg.line, sg.tags, dg.Line, dg.Tags))
			add(base+"/same-number-of-rules", len(dg.Rules) == len(sg.rules), fmt.Sprintf("the source has %d Match chains, the data %d rules", len(sg.rules), len(dg.Rules)))
			byLine := map[int]*irRule{}
			for _, r := range dg.Rules {
				byLine[r.Line] = r
			}
			for k, sr := range sg.rules {
				nrules++
				rn := fmt.Sprintf("%s/rule#%d", base, k+1)
				dr := byLine[sr.line]
				if dr == nil {
					add(rn+"/shipped", false, fmt.Sprintf("no rule of the shipped data corresponds to the Match chain at rules.go:%d", sr.line))
					continue
				}
				add(rn+"/patterns-match-source", eqStrs(dr.Patterns, sr.patterns), fmt.Sprintf("rules.go:%d has patterns %q, the data %q", sr.line, sr.patterns, dr.Patterns))
				wantReport := sr.report
				if wantReport == "" && sr.suggest != "" {
					wantReport = "suggestion: " + sr.suggest
				}
				add(rn+"/templates-match-source", dr.Report == wantReport && dr.Suggest == sr.suggest && dr.LocationVar == sr.at,
					fmt.Sprintf("rules.go:%d: report %q suggest %q at %q; data: report %q suggest %q at %q", sr.line, wantReport, sr.suggest, sr.at, dr.Report, dr.Suggest, dr.LocationVar))
				dataWhere, hasW := "", dr.Where != nil && dr.Where.Op != ""
				if hasW {
					dataWhere = dr.Where.Src
				}
				norm := func(x string) string { return strings.Join(strings.Fields(x), " ") }
				add(rn+"/filter-matches-source", hasW == sr.hasWhere && norm(dataWhere) == norm(sr.where), fmt.Sprintf("rules.go:%d: Where(%s); data filter source: %s", sr.line, sr.where, dataWhere))
			}
		}
		for _, g := range data {
			if !seen[g.Name] {
				add("rules/"+g.Name+"/has-a-source", false, "the shipped rule data contains group "+g.Name+" that the rule source does not define")
			}
		}
		c.extraEv["rule_chains_compared_with_the_shipped_data"] = nrules
		c.assumed["the precompiler's treatment of helper closures inside filters and of DSL details that are not pattern, template, location or filter text is not re-derived"] = true
	})
}
