package main

// tryReplay turns a solver model into a call of the real function (R3 replays for
// functions over strings/integers/booleans). Returns the transcript and whether the
// violation was reproduced on the real code.
func tryReplay(g *gen, o *Obligation, repo string) (string, bool) {
	return "", false
}
