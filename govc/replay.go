package main

import (
	"bytes"
	"encoding/json"
	"fmt"
	"go/types"
	"os"
	"os/exec"
	"path/filepath"
	"regexp"
	"strconv"
	"strings"

	"golang.org/x/tools/go/ssa"
)

// R3 replay: turn a solver model into a direct call of the real function (through an
// in-package test injected with `go test -overlay`, nothing is written into the repository),
// observe the results, and evaluate the violated clause on (model inputs, observed outputs).

type replayArg struct {
	goExpr string   // Go expression building the argument
	setup  []string // statements executed before the call
	binds  []string // SMT assertions fixing the symbolic input to the concrete value
}

func basicKind(t types.Type) string {
	if b, ok := t.Underlying().(*types.Basic); ok {
		switch {
		case b.Info()&types.IsString != 0:
			return "string"
		case b.Info()&types.IsBoolean != 0:
			return "bool"
		case b.Info()&types.IsInteger != 0:
			return "int"
		}
	}
	return ""
}

func typeExpr(t types.Type, pkg *types.Package) string {
	return types.TypeString(t, func(p *types.Package) string {
		if p == pkg {
			return ""
		}
		return p.Name()
	})
}

// getValues asks z3 for the values of the given terms in a model of the script.
func getValues(script string, terms []string, solver string) (map[string]string, error) {
	if len(terms) == 0 {
		return map[string]string{}, nil
	}
	s := strings.Replace(script, "(get-model)", "(get-value ("+strings.Join(terms, " ")+"))", 1)
	dir, err := os.MkdirTemp(scratchRoot(), "govc-replay-")
	if err != nil {
		return nil, err
	}
	defer os.RemoveAll(dir)
	f := filepath.Join(dir, "q.smt2")
	os.WriteFile(f, []byte(s), 0o644)
	var text string
	order := []solverSpec{}
	for _, sp := range solvers {
		if sp.name == solver {
			order = append(order, sp)
		}
	}
	for _, sp := range solvers {
		if sp.name != solver {
			order = append(order, sp)
		}
	}
	for _, sp := range order {
		argv := sp.argv(f, 20000)
		out, _ := exec.Command(argv[0], argv[1:]...).CombinedOutput()
		text = string(out)
		if strings.HasPrefix(strings.TrimSpace(text), "sat") {
			break
		}
	}
	if !strings.HasPrefix(strings.TrimSpace(text), "sat") {
		return nil, fmt.Errorf("solver did not reproduce the model: %s", firstLine(text))
	}
	body := text[strings.Index(text, "\n")+1:]
	sx, err := parseSexprs(body)
	if err != nil || len(sx) == 0 {
		return nil, fmt.Errorf("cannot parse get-value output: %v", err)
	}
	res := map[string]string{}
	for _, pair := range sx[0].list {
		if len(pair.list) == 2 {
			res[pair.list[0].String()] = pair.list[1].String()
		}
	}
	return res, nil
}

func firstLine(s string) string {
	if i := strings.Index(s, "\n"); i >= 0 {
		return s[:i]
	}
	return s
}

type sexpr struct {
	atom string
	list []*sexpr
	isL  bool
}

func (s *sexpr) String() string {
	if !s.isL {
		return s.atom
	}
	var parts []string
	for _, x := range s.list {
		parts = append(parts, x.String())
	}
	return "(" + strings.Join(parts, " ") + ")"
}

func parseSexprs(src string) ([]*sexpr, error) {
	var out []*sexpr
	i := 0
	var parse func() (*sexpr, error)
	skip := func() {
		for i < len(src) && (src[i] == ' ' || src[i] == '\n' || src[i] == '\t' || src[i] == '\r') {
			i++
		}
	}
	parse = func() (*sexpr, error) {
		skip()
		if i >= len(src) {
			return nil, fmt.Errorf("eof")
		}
		if src[i] == '(' {
			i++
			n := &sexpr{isL: true}
			for {
				skip()
				if i >= len(src) {
					return nil, fmt.Errorf("unbalanced")
				}
				if src[i] == ')' {
					i++
					return n, nil
				}
				c, err := parse()
				if err != nil {
					return nil, err
				}
				n.list = append(n.list, c)
			}
		}
		if src[i] == '"' {
			j := i + 1
			for j < len(src) {
				if src[j] == '"' {
					if j+1 < len(src) && src[j+1] == '"' {
						j += 2
						continue
					}
					break
				}
				j++
			}
			a := src[i : j+1]
			i = j + 1
			return &sexpr{atom: a}, nil
		}
		j := i
		for j < len(src) && !strings.ContainsRune(" \n\t\r()", rune(src[j])) {
			j++
		}
		a := src[i:j]
		i = j
		return &sexpr{atom: a}, nil
	}
	for {
		skip()
		if i >= len(src) {
			break
		}
		s, err := parse()
		if err != nil {
			return out, err
		}
		out = append(out, s)
	}
	return out, nil
}

var uEsc = regexp.MustCompile(`\\u\{([0-9a-fA-F]+)\}`)

// smtToGo converts a solver value to a Go literal of the given kind.
func smtToGo(v, kind string) (string, bool) {
	switch kind {
	case "int":
		v = strings.TrimSpace(v)
		if strings.HasPrefix(v, "(- ") {
			return "-" + strings.TrimSuffix(v[3:], ")"), true
		}
		if _, err := strconv.ParseInt(v, 10, 64); err == nil {
			return v, true
		}
		return "", false
	case "bool":
		return v, v == "true" || v == "false"
	case "string":
		if len(v) < 2 || v[0] != '"' {
			return "", false
		}
		s := strings.ReplaceAll(v[1:len(v)-1], `""`, `"`)
		var bad bool
		s = uEsc.ReplaceAllStringFunc(s, func(m string) string {
			h := uEsc.FindStringSubmatch(m)[1]
			n, err := strconv.ParseInt(h, 16, 32)
			if err != nil || n > 255 {
				bad = true
				return "?"
			}
			return string([]byte{byte(n)})
		})
		if bad {
			return "", false
		}
		return strconv.Quote(s), true
	}
	return "", false
}

func goToSMT(kind, printed string) string {
	switch kind {
	case "int":
		n, _ := strconv.ParseInt(printed, 10, 64)
		return intLit(n)
	case "bool":
		return printed
	case "string":
		s, err := strconv.Unquote(printed)
		if err != nil {
			return `""`
		}
		return smtString(s)
	}
	return "0"
}

func tryReplay(g *gen, o *Obligation, repo string) (string, bool) {
	fn := g.fn
	if fn == nil || fn.Parent() != nil || fn.Pkg == nil {
		return "", false
	}
	pkg := fn.Pkg.Pkg
	var log bytes.Buffer
	// 1. which terms do we need from the model?
	type field struct {
		name, kind, term string
	}
	type param struct {
		p      *ssa.Parameter
		kind   string // basic kind, "struct", "ptrstruct"
		term   string
		fields []field
	}
	var params []param
	var terms []string
	for _, p := range fn.Params {
		v, ok := g.vals[p]
		if !ok {
			return "", false
		}
		pp := param{p: p, term: v.T}
		switch {
		case basicKind(p.Type()) != "":
			pp.kind = basicKind(p.Type())
			terms = append(terms, v.T)
		default:
			t := p.Type()
			isPtr := false
			if pt, ok := t.Underlying().(*types.Pointer); ok {
				t = pt.Elem()
				isPtr = true
			}
			st, ok := structOf(t)
			if !ok {
				return "", false
			}
			sn := g.st.sortOf(t)
			name := g.st.structName(t)
			for i := 0; i < st.NumFields(); i++ {
				f := st.Field(i)
				k := basicKind(f.Type())
				if k == "" {
					continue
				}
				var term string
				if isPtr {
					h := "H0_" + sanitize(fieldKey(name, f.Name()))
					if !g.declared[h] {
						continue
					}
					term = app("select", h, v.T)
				} else {
					term = app(g.st.accessor(sn, i), v.T)
				}
				pp.fields = append(pp.fields, field{f.Name(), k, term})
				terms = append(terms, term)
			}
			if isPtr {
				pp.kind = "ptrstruct"
			} else {
				pp.kind = "struct"
			}
		}
		params = append(params, pp)
	}
	vals, err := getValues(o.Script, terms, o.Solver)
	if err != nil {
		return "replay not attempted: " + err.Error(), false
	}
	// 2. build the test
	var setup, binds, args []string
	for i, pp := range params {
		switch pp.kind {
		case "int", "bool", "string":
			lit, ok := smtToGo(vals[pp.term], pp.kind)
			if !ok {
				return "replay not attempted: model value not representable: " + vals[pp.term], false
			}
			if pp.kind == "int" {
				lit = typeExpr(pp.p.Type(), pkg) + "(" + lit + ")"
			}
			args = append(args, lit)
			binds = append(binds, eq(pp.term, vals[pp.term]))
		case "struct", "ptrstruct":
			t := pp.p.Type()
			if pt, ok := t.Underlying().(*types.Pointer); ok {
				t = pt.Elem()
			}
			vn := fmt.Sprintf("a%d", i)
			if pp.kind == "ptrstruct" {
				setup = append(setup, fmt.Sprintf("%s := &%s{}", vn, typeExpr(t, pkg)))
			} else {
				setup = append(setup, fmt.Sprintf("var %s %s", vn, typeExpr(t, pkg)))
			}
			for _, f := range pp.fields {
				lit, ok := smtToGo(vals[f.term], f.kind)
				if !ok {
					return "replay not attempted: model value not representable: " + vals[f.term], false
				}
				setup = append(setup, fmt.Sprintf("%s.%s = %s", vn, f.name, lit))
				binds = append(binds, eq(f.term, vals[f.term]))
			}
			setup = append(setup, "_ = "+vn)
			args = append(args, vn)
		}
	}
	sig := fn.Signature
	call := fn.Name() + "("
	if sig.Recv() != nil {
		call = args[0] + "." + fn.Name() + "("
		args = args[1:]
	}
	call += strings.Join(args, ", ") + ")"
	var body strings.Builder
	for _, s := range setup {
		body.WriteString("\t" + s + "\n")
	}
	nres := sig.Results().Len()
	type resField struct{ path, kind, expr string }
	var resFields []resField
	if nres > 0 {
		var names []string
		for i := 0; i < nres; i++ {
			names = append(names, fmt.Sprintf("r%d", i))
		}
		body.WriteString("\t" + strings.Join(names, ", ") + " := " + call + "\n")
		for i := 0; i < nres; i++ {
			rt := sig.Results().At(i).Type()
			switch {
			case basicKind(rt) != "":
				resFields = append(resFields, resField{fmt.Sprint(i), basicKind(rt), names[i]})
			case types.IsInterface(rt):
				resFields = append(resFields, resField{fmt.Sprint(i), "nilness", names[i]})
			default:
				if st, ok := structOf(rt); ok {
					for j := 0; j < st.NumFields(); j++ {
						if k := basicKind(st.Field(j).Type()); k != "" {
							resFields = append(resFields, resField{fmt.Sprintf("%d.%d", i, j), k, names[i] + "." + st.Field(j).Name()})
						}
					}
				} else {
					body.WriteString("\t_ = " + names[i] + "\n")
				}
			}
		}
	} else {
		body.WriteString("\t" + call + "\n")
	}
	for _, rf := range resFields {
		switch rf.kind {
		case "string":
			fmt.Fprintf(&body, "\tfmt.Printf(\"VERIF-RESULT %s %%q\\n\", string(%s))\n", rf.path, rf.expr)
		case "int":
			fmt.Fprintf(&body, "\tfmt.Printf(\"VERIF-RESULT %s %%d\\n\", int64(%s))\n", rf.path, rf.expr)
		case "bool":
			fmt.Fprintf(&body, "\tfmt.Printf(\"VERIF-RESULT %s %%t\\n\", bool(%s))\n", rf.path, rf.expr)
		case "nilness":
			fmt.Fprintf(&body, "\tfmt.Printf(\"VERIF-RESULT %s %%t\\n\", %s == nil)\n", rf.path, rf.expr)
		}
	}
	src := fmt.Sprintf(`package %s

import (
	"fmt"
	"testing"
)

func TestVerifReplay(t *testing.T) {
	defer func() {
		if r := recover(); r != nil {
			fmt.Printf("VERIF-PANIC %%v\n", r)
		}
	}()
%s}
`, pkg.Name(), body.String())
	dir, err := os.MkdirTemp(scratchRoot(), "govc-replay-")
	if err != nil {
		return "", false
	}
	defer os.RemoveAll(dir)
	rel := strings.TrimPrefix(pkg.Path(), repoMod+"/")
	testPath := filepath.Join(dir, "replay_test.go")
	os.WriteFile(testPath, []byte(src), 0o644)
	ov := map[string]map[string]string{"Replace": {filepath.Join(repo, rel, "zz_verif_replay_test.go"): testPath}}
	ovb, _ := json.Marshal(ov)
	ovPath := filepath.Join(dir, "ov.json")
	os.WriteFile(ovPath, ovb, 0o644)
	cmd := exec.Command("go", "test", "-overlay", ovPath, "-vet=off", "-count=1", "-timeout", "60s", "-v", "-run", "^TestVerifReplay$", "./"+rel)
	cmd.Dir = repo
	cmd.Env = append(os.Environ(), "GOFLAGS=-mod=mod", "GOPROXY=off", "GOSUMDB=off", "GOTOOLCHAIN=local")
	out, _ := cmd.CombinedOutput()
	fmt.Fprintf(&log, "injected test (go test -overlay, package %s):\n%s\noutput:\n%s\n", rel, src, string(out))
	// 3. judge
	observed := map[string]string{}
	panicked := false
	for _, line := range strings.Split(string(out), "\n") {
		if strings.HasPrefix(line, "VERIF-PANIC") {
			panicked = true
		}
		if strings.HasPrefix(line, "VERIF-RESULT ") {
			rest := line[len("VERIF-RESULT "):]
			if i := strings.Index(rest, " "); i > 0 {
				observed[rest[:i]] = rest[i+1:]
			}
		}
	}
	switch o.Kind {
	case "index", "slice", "nil", "typeassert", "div", "panic", "makeslice":
		if panicked {
			log.WriteString("verdict: the real code panics on the solver's input -> reproduced\n")
			return log.String(), true
		}
		log.WriteString("verdict: no panic observed on the solver's input -> not reproduced\n")
		return log.String(), false
	}
	if o.Kind != "post" || g.ctr == nil {
		return log.String(), false
	}
	if panicked {
		log.WriteString("verdict: the real code panics on the solver's input (postcondition cannot hold) -> reproduced\n")
		return log.String(), true
	}
	// evaluate the clause on concrete inputs and observed outputs
	var clause *Clause
	for _, en := range g.ctr.Ensures {
		if en.Label == o.Label {
			clause = en
		}
	}
	if clause == nil {
		return log.String(), false
	}
	env := g.specEnvAtEntry()
	env.st = g.entry
	var rs []Val
	for i := 0; i < nres; i++ {
		rt := sig.Results().At(i).Type()
		s := g.st.sortOf(rt)
		switch {
		case basicKind(rt) != "":
			p, ok := observed[fmt.Sprint(i)]
			if !ok {
				return log.String(), false
			}
			rs = append(rs, Val{T: goToSMT(basicKind(rt), p), Sort: s, Typ: rt})
		case types.IsInterface(rt):
			p := observed[fmt.Sprint(i)]
			if p == "true" {
				rs = append(rs, Val{T: "(mk_iface 0 0)", Sort: s, Typ: rt})
			} else {
				rs = append(rs, Val{T: "(mk_iface 1 1)", Sort: s, Typ: rt})
			}
		default:
			st, ok := structOf(rt)
			if !ok {
				return log.String(), false
			}
			var fs []string
			for j := 0; j < st.NumFields(); j++ {
				k := basicKind(st.Field(j).Type())
				p, ok := observed[fmt.Sprintf("%d.%d", i, j)]
				if k == "" || !ok {
					return log.String(), false
				}
				fs = append(fs, goToSMT(k, p))
			}
			rs = append(rs, Val{T: "(mk_" + s + " " + strings.Join(fs, " ") + ")", Sort: s, Typ: rt})
		}
	}
	g.bindResults(env, sig, rs)
	mark := len(g.cmds)
	claim, err := g.evalBool(env, clause.E)
	if err != nil {
		return log.String(), false
	}
	var sb strings.Builder
	sb.WriteString("(set-option :produce-models true)\n(set-logic ALL)\n" + g.st.prelude())
	entryIdx := g.exitCovers()[0].cmdIdx
	for _, c := range g.cmds[:entryIdx] {
		sb.WriteString(c + "\n")
	}
	for _, c := range g.cmds[mark:] {
		sb.WriteString(c + "\n")
	}
	g.cmds = g.cmds[:mark]
	for _, b := range binds {
		sb.WriteString("(assert " + b + ")\n")
	}
	sb.WriteString("(assert (not " + claim + "))\n(check-sat)\n")
	judge := fixSidx(sb.String())
	q := filepath.Join(dir, "judge.smt2")
	os.WriteFile(q, []byte(judge), 0o644)
	jout, _ := exec.Command("z3-new", "-t:20000", q).CombinedOutput()
	verdict := strings.TrimSpace(firstLine(string(jout)))
	fmt.Fprintf(&log, "clause %q evaluated on (model inputs, observed outputs): negation is %s\n", clause.Src, verdict)
	if verdict == "sat" {
		log.WriteString("verdict: the real code violates the clause on the solver's input -> reproduced\n")
		return log.String(), true
	}
	log.WriteString("verdict: not reproduced on the real code\n")
	return log.String(), false
}
