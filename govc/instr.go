package main

import (
	"fmt"
	"go/ast"
	"go/token"
	"go/types"
	"strings"

	"golang.org/x/tools/go/ssa"
)

func isExprKind(kinds ...string) func(ast.Node) bool {
	return func(n ast.Node) bool {
		for _, k := range kinds {
			switch k {
			case "index":
				if _, ok := n.(*ast.IndexExpr); ok {
					return true
				}
			case "slice":
				if _, ok := n.(*ast.SliceExpr); ok {
					return true
				}
			case "sel":
				if _, ok := n.(*ast.SelectorExpr); ok {
					return true
				}
			case "star":
				if _, ok := n.(*ast.StarExpr); ok {
					return true
				}
			case "call":
				if _, ok := n.(*ast.CallExpr); ok {
					return true
				}
			case "assert":
				if _, ok := n.(*ast.TypeAssertExpr); ok {
					return true
				}
			case "expr":
				if _, ok := n.(ast.Expr); ok {
					return true
				}
			case "stmt":
				if _, ok := n.(ast.Stmt); ok {
					return true
				}
			}
		}
		return false
	}
}

func (g *gen) label(pos token.Pos, fallback string, kinds ...string) string {
	if s := g.srcText(pos, isExprKind(kinds...)); s != "" {
		return s
	}
	return fallback
}

func (g *gen) nilCheck(v Val, pos token.Pos, what string) {
	if !g.options.safety {
		return
	}
	if v.Place != nil {
		return
	}
	// freshly allocated objects, globals and embedded structs of those are trivially non-nil
	for _, a := range g.allocs {
		if a == v.T {
			return
		}
	}
	if strings.HasPrefix(v.T, "(- ") {
		return
	}
	g.obligeAndAssume("nil", what, not(eq(v.T, "0")), pos)
}

func (g *gen) instr(b *ssa.BasicBlock, idx int, ins ssa.Instruction) {
	switch ins := ins.(type) {
	case *ssa.DebugRef:
		if g.inl != nil {
			return // names of an inlined callee's locals must not shadow the caller's in its contract clauses
		}
		if obj := ins.Object(); obj != nil {
			if v, isVar := obj.(*types.Var); isVar && !v.IsField() {
				if _, known := g.vals[ins.X]; known || isConstLike(ins.X) {
					if a, ok := g.allocVars[obj.Pos()]; ok && a.Comment == obj.Name() {
						// an address-taken variable: its cell is the truth, not the last value assigned
						g.debugVals[obj.Name()] = debugRef{a, true, obj}
						return
					}
					g.debugVals[obj.Name()] = debugRef{ins.X, ins.IsAddr, obj}
				}
			}
		}
		return
	case *ssa.Alloc:
		if ins.Comment != "" && ins.Pos().IsValid() {
			g.allocVars[ins.Pos()] = ins
		}
		pt := ins.Type().(*types.Pointer).Elem()
		ref := g.newAlloc("alloc_" + ins.Name())
		g.zeroInit(ref, pt)
		v := Val{T: ref, Sort: "Int", Typ: ins.Type()}
		if st, ok := structOf(pt); ok && structLocalPrivate(ins) {
			// a struct-typed local whose address never leaves this function: calls cannot change its fields
			g.addStableStruct(ref, pt, st, 0)
		}
		if _, ok := structOf(pt); !ok {
			if _, isArr := pt.Underlying().(*types.Array); !isArr {
				v.Place = &Place{Kind: plCell, Ref: ref, Elem: pt}
				if !cellWrittenElsewhere(ins) {
					// a local variable that no closure assigns and whose address does not escape: calls cannot change it
					g.stableCells = append(g.stableCells, stableCell{ref: ref, key: cellKey(g.st.sortOf(pt)), once: storedOnceAtEntry(ins)})
				}
			}
		}
		g.setVal(ins, v)
	case *ssa.BinOp:
		g.binop(ins)
	case *ssa.UnOp:
		g.unop(ins)
	case *ssa.Call:
		r := g.call(ins, &ins.Call, ins.Pos())
		if ins.Type() != nil {
			if tup, ok := ins.Type().(*types.Tuple); ok && tup.Len() != 1 {
				g.vals[ins] = r
			} else {
				g.vals[ins] = r
			}
		}
	case *ssa.ChangeInterface:
		x := g.val(ins.X)
		g.setVal(ins, Val{T: x.T, Sort: "Iface", Typ: ins.Type()})
	case *ssa.ChangeType:
		x := g.val(ins.X)
		from, to := g.st.sortOf(ins.X.Type()), g.st.sortOf(ins.Type())
		if from != to {
			if fs, ok := g.st.structs[from]; ok {
				if ts, ok2 := g.st.structs[to]; ok2 && len(fs.Fields) == len(ts.Fields) {
					// conversion between structurally identical struct types: rebuild field by field
					var parts []string
					for i := range fs.Fields {
						parts = append(parts, app(g.st.accessor(from, i), x.T))
					}
					t := "mk_" + to
					if len(parts) > 0 {
						t = "(mk_" + to + " " + strings.Join(parts, " ") + ")"
					}
					g.defineVal(ins, t)
					return
				}
			}
		}
		x.Typ = ins.Type()
		g.setVal(ins, x)
	case *ssa.Convert:
		g.convert(ins)
	case *ssa.MultiConvert:
		g.havocVal(ins)
		g.unsupportedf("multiconvert")
	case *ssa.Extract:
		t := g.val(ins.Tuple)
		if ins.Index < len(t.Tuple) {
			g.setVal(ins, t.Tuple[ins.Index])
		} else {
			g.havocVal(ins)
			g.unsupportedf("extract from non-tuple %s", ins.Tuple.Name())
		}
	case *ssa.Field:
		x := g.val(ins.X)
		sn := g.st.sortOf(ins.X.Type())
		g.defineVal(ins, app(g.st.accessor(sn, ins.Field), x.T))
	case *ssa.FieldAddr:
		g.fieldAddr(ins)
	case *ssa.Index:
		x := g.val(ins.X)
		i := g.val(ins.Index)
		switch u := ins.X.Type().Underlying().(type) {
		case *types.Basic: // string
			if g.options.safety {
				g.obligeAndAssume("index", g.label(ins.Pos(), ins.String(), "index"), and(app("<=", "0", i.T), app("<", i.T, app("str.len", x.T))), ins.Pos())
			}
			g.defineVal(ins, app("str.to_code", app("str.at", x.T, i.T)))
		case *types.Array:
			if g.options.safety {
				g.obligeAndAssume("index", g.label(ins.Pos(), ins.String(), "index"), and(app("<=", "0", i.T), app("<", i.T, fmt.Sprint(u.Len()))), ins.Pos())
			}
			g.defineVal(ins, app("select", x.T, i.T))
		default:
			g.havocVal(ins)
			g.unsupportedf("index on %s", ins.X.Type())
		}
	case *ssa.IndexAddr:
		g.indexAddr(ins)
	case *ssa.Lookup:
		g.lookup(ins)
	case *ssa.MakeChan:
		g.setVal(ins, Val{T: g.newAlloc("chan"), Sort: "Int", Typ: ins.Type()})
	case *ssa.MakeClosure:
		cv := &closureVal{fn: ins.Fn.(*ssa.Function)}
		for _, bnd := range ins.Bindings {
			cv.bindings = append(cv.bindings, g.val(bnd))
		}
		g.setVal(ins, Val{T: g.newAlloc("closure"), Sort: "Int", Typ: ins.Type(), Fn: cv})
	case *ssa.MakeInterface:
		x := g.val(ins.X)
		tag := g.st.tagOf(ins.X.Type())
		var payload string
		if x.Place != nil {
			payload = x.T // address-like; escaping places are not tracked
		} else {
			payload = g.box(x)
		}
		g.defineVal(ins, app("mk_iface", fmt.Sprint(tag), payload))
	case *ssa.MakeMap:
		ref := g.newAlloc("map")
		mt := ins.Type().Underlying().(*types.Map)
		ks, vs := g.st.sortOf(mt.Key()), g.st.sortOf(mt.Elem())
		dk := mapDomKey(ks, vs)
		ds := arr("Int", arr(ks, "Bool"))
		g.heapSet(dk, ds, app("store", g.heapGet(dk, ds), ref, "((as const "+arr(ks, "Bool")+") false)"))
		g.setVal(ins, Val{T: ref, Sort: "Int", Typ: ins.Type()})
	case *ssa.MakeSlice:
		st := ins.Type().Underlying().(*types.Slice)
		es := g.st.sortOf(st.Elem())
		ln, cp := g.val(ins.Len), g.val(ins.Cap)
		if g.options.safety {
			g.obligeAndAssume("makeslice", g.label(ins.Pos(), ins.String(), "call"), and(app("<=", "0", ln.T), app("<=", ln.T, cp.T)), ins.Pos())
		}
		base := g.newAlloc("mkslice")
		k := elemKey(es)
		as := arr("Int", arr("Int", es))
		g.heapSet(k, as, app("store", g.heapGet(k, as), base, g.st.zeroSort(arr("Int", es))))
		g.defineVal(ins, app("mk_slice", base, "0", ln.T, cp.T))
	case *ssa.MapUpdate:
		g.mapUpdate(ins)
	case *ssa.Range:
		x := g.val(ins.X)
		g.setVal(ins, Val{T: x.T, Sort: x.Sort, Typ: ins.X.Type()})
		if mt, ok := ins.X.Type().Underlying().(*types.Map); ok {
			// ghost set of the keys already produced by this iteration (each key is visited exactly once)
			ks := g.st.sortOf(mt.Key())
			key := "RG|" + ins.Name()
			g.heapSet(key, arr(ks, "Bool"), "((as const "+arr(ks, "Bool")+") false)")
			g.rangeSeen = key
			g.rangeSeenSort = ks
		}
	case *ssa.Next:
		g.next(ins)
	case *ssa.Slice:
		g.sliceInstr(ins)
	case *ssa.SliceToArrayPointer:
		g.havocVal(ins)
		g.unsupportedf("slice to array pointer")
	case *ssa.Store:
		addr := g.val(ins.Addr)
		v := g.val(ins.Val)
		pt := ins.Addr.Type().Underlying().(*types.Pointer).Elem()
		if addr.Place == nil {
			g.nilCheck(addr, ins.Pos(), g.label(ins.Pos(), "*"+ins.Addr.Name(), "star", "sel", "expr"))
		}
		g.frameCheck(addr, ins.Pos())
		if g.onStore != nil {
			g.onStore(g, ins, addr, v)
		}
		g.raceCheck(addr, ins.Pos(), "write")
		g.store(addr, pt, v)
	case *ssa.TypeAssert:
		g.typeAssert(ins)
	case *ssa.Phi:
		// handled by block()
	case *ssa.If, *ssa.Jump:
		// handled by block()
	case *ssa.Return:
		g.ret(ins)
	case *ssa.Panic:
		if g.ctr != nil && g.ctr.MayPanic {
			return
		}
		if g.options.safety {
			g.oblige("panic", g.label(ins.Pos(), "panic", "call"), "false", ins.Pos(), nil)
		}
	case *ssa.RunDefers:
		// deferred calls to functions whose (assumed) contract updates ghost state are applied here, last first
		// (mutex Unlock); other deferred calls are not interpreted
		for i := len(g.deferred) - 1; i >= 0; i-- {
			d := g.deferred[i]
			if callee := d.Call.StaticCallee(); callee != nil {
				if ctr := g.e.ext[extKey(callee)]; ctr != nil && len(ctr.Sets) > 0 {
					g.call(d, &d.Call, d.Pos())
				}
			}
		}
	case *ssa.Defer:
		g.deferInstr(ins)
	case *ssa.Go:
		g.goInstr(ins)
	case *ssa.Send:
		// channel operations are not modelled
	case *ssa.Select:
		g.havocVal(ins)
		g.unsupportedf("select")
	default:
		if v, ok := ins.(ssa.Value); ok {
			g.havocVal(v)
		}
		g.unsupportedf("instruction %T", ins)
	}
}

// raceCheck: between `go f()` and the matching wg.Wait() the spawning function must not touch what f may write
func (g *gen) raceCheck(addr Val, pos token.Pos, what string) {
	if addr.Place != nil && addr.Place.Kind == plCell && g.ctr != nil {
		if name, ok := globalNames[addr.Place.Ref]; ok {
			if mu, ok := g.e.guarded[name]; ok {
				if gd := g.e.ghosts["$held"]; gd != nil {
					held := app("select", g.heapGet("G|$held", arr("Int", "Bool")), globalAddr(mu))
					g.oblige("lock", what+" of "+name+" holds "+mu, held, pos, nil)
				}
			}
		}
	}
	if len(g.pendingKeys) == 0 || addr.Place == nil {
		return
	}
	key := g.placeKey(addr.Place)
	if g.pendingKeys[key] {
		g.oblige("race", what+" of "+g.label(pos, key, "expr", "stmt")+" while a spawned goroutine may write it", "false", pos, nil)
	}
}

func (g *gen) deferInstr(ins *ssa.Defer) {
	g.deferred = append(g.deferred, ins)
	// a deferred closure that recovers makes the function's panics invisible; not modelled.
	if fn, ok := ins.Call.Value.(*ssa.MakeClosure); ok {
		_ = fn
		g.unsupportedf("deferred closure (body not interpreted)")
	}
}

// goInstr: a spawned function may run at any time until it is joined. Its effects (by contract: the
// `assigns` places; otherwise its inferred mod set) are applied as a havoc at the spawn and again at
// the next (*sync.WaitGroup).Wait; interleavings are not modelled (data-race freedom is property C04).
func (g *gen) goInstr(ins *ssa.Go) {
	g.assumed["go statements: effects of the spawned function are havocked at spawn and at wg.Wait(); interleavings not modelled"] = true
	c := &ins.Call
	var args []Val
	for _, a := range c.Args {
		args = append(args, g.val(a))
	}
	var callee *ssa.Function
	var bindings []Val
	switch v := c.Value.(type) {
	case *ssa.Function:
		callee = v
	case *ssa.MakeClosure:
		callee = v.Fn.(*ssa.Function)
		if cv := g.vals[v].Fn; cv != nil {
			bindings = cv.bindings
		}
	}
	if callee == nil || !g.e.inRepo(callee) {
		g.havocAllHeap("go: unknown function")
		g.pendingGo = append(g.pendingGo, func() { g.havocAllHeap("join: unknown goroutine") })
		return
	}
	key := funcKey(callee)
	g.callSiteClauses(key, args, c, ins.Pos())
	if ctr := g.e.ctrs[key]; ctr != nil {
		g.applyContractFn(ctr, key, callee, args, bindings, ins.Pos())
		if ctr.HasAssign {
			// the same places may change again until the join; re-evaluated in the state at the join
			pos := ins.Pos()
			if g.pendingKeys == nil {
				g.pendingKeys = map[string]bool{}
			}
			env := g.specEnvHere()
			env.calleeMode = true
			for i, p := range callee.Params {
				if i < len(args) {
					env.vars[p.Name()] = args[i]
				}
			}
			for i, fv := range callee.FreeVars {
				if i < len(bindings) {
					pv := bindings[i]
					pt := fv.Type().(*types.Pointer).Elem()
					if pv.Place == nil {
						if _, ok := structOf(pt); !ok {
							pv.Place = &Place{Kind: plCell, Ref: pv.T, Elem: pt}
						}
					}
					env.vars[fv.Name()] = g.load(pv, pt)
				}
			}
			for _, a := range ctr.Assigns {
				if pl, err := g.placeOf(env, a); err == nil && pl.Kind != plMap {
					g.pendingKeys[g.placeKey(pl)] = true
				}
			}
			g.pendingGo = append(g.pendingGo, func() {
				saveSafety := g.options.safety
				g.options.safety = false
				g.applyContractFn(&Contract{Key: ctr.Key, Loops: map[int]*LoopSpec{}, HasAssign: true, Assigns: ctr.Assigns}, key, callee, args, bindings, pos)
				g.options.safety = saveSafety
			})
			return
		}
	}
	ms := g.e.modSetOf(callee)
	g.frameCheckKeys(ms, ins.Pos(), callee.Name())
	g.havocKeys(ms)
	g.tick()
	g.pendingGo = append(g.pendingGo, func() { g.havocKeys(ms); g.tick() })
}

// frameCheck: a write must hit a location named in `assigns` or an object allocated by this function.
func (g *gen) frameCheck(addr Val, pos token.Pos) {
	if !g.frameMode {
		return
	}
	var p *Place
	if addr.Place != nil {
		p = addr.Place
	} else if addr.Typ != nil {
		// whole-object write through a plain reference (struct / cell / map)
		switch u := addr.Typ.Underlying().(type) {
		case *types.Pointer:
			if _, ok := structOf(u.Elem()); ok {
				p = &Place{Kind: plField, Ref: addr.T, Struct: g.st.structName(u.Elem()), Field: "*", Elem: u.Elem()}
			} else {
				p = &Place{Kind: plCell, Ref: addr.T, Elem: u.Elem()}
			}
		case *types.Map:
			p = &Place{Kind: plMap, Ref: addr.T, MapT: addr.Typ}
		}
	}
	if p == nil {
		return
	}
	g.frameCheckPlace(p, pos, g.label(pos, "write", "stmt", "expr"))
}

func (g *gen) placeRef(p *Place) string {
	if p.Kind == plElem {
		return p.Base
	}
	return p.Ref
}

// allowedWrite builds the condition under which writing place p respects the frame.
func (g *gen) allowedWrite(p *Place) string {
	ref := g.placeRef(p)
	conds := []string{not(g.alive0Term(ref))}
	if g.sweepFrames != "" {
		g.declareFun("private", []string{"Int"}, "Bool")
		conds = append(conds, app("private", ref))
	}
	if p.Kind == plElem {
		// a nil slice has no elements: nothing that existed before can be written through it
		conds = append(conds, eq(p.Base, "0"))
	}
	for _, a := range g.assignPlaces {
		if a.Kind != p.Kind {
			continue
		}
		switch p.Kind {
		case plField:
			if a.Struct == p.Struct && (a.Field == p.Field || a.Field == "*") {
				if a.Ref == "*" {
					return "true"
				}
				conds = append(conds, eq(a.Ref, p.Ref))
			}
		case plCell:
			if g.st.sortOf(a.Elem) == g.st.sortOf(p.Elem) {
				conds = append(conds, eq(a.Ref, p.Ref))
			}
		case plElem:
			if g.st.sortOf(a.Elem) == g.st.sortOf(p.Elem) {
				if a.Idx == "*" {
					conds = append(conds, eq(a.Base, p.Base))
				} else if p.Idx != "*" {
					conds = append(conds, and(eq(a.Base, p.Base), eq(a.Idx, p.Idx)))
				}
			}
		case plMap:
			conds = append(conds, eq(a.Ref, p.Ref))
		}
	}
	return or(conds...)
}

func (g *gen) frameCheckPlace(p *Place, pos token.Pos, label string) {
	if !g.frameMode {
		return
	}
	ref := g.placeRef(p)
	for _, a := range g.allocs {
		if a == ref {
			return // trivially fresh
		}
	}
	g.oblige("frame", label, g.allowedWrite(p), pos, g.frameProps)
}

func (g *gen) binop(ins *ssa.BinOp) {
	x, y := g.val(ins.X), g.val(ins.Y)
	var t string
	s := x.Sort
	switch ins.Op {
	case token.ADD:
		if s == "String" {
			t = app("str.++", x.T, y.T)
		} else {
			t = g.wrapArith(ins.Type(), app("+", x.T, y.T))
		}
	case token.SUB:
		t = g.wrapArith(ins.Type(), app("-", x.T, y.T))
	case token.MUL:
		t = g.wrapArith(ins.Type(), app("*", x.T, y.T))
	case token.QUO:
		if s == "Real" {
			t = app("/", x.T, y.T)
		} else {
			if g.options.safety {
				g.obligeAndAssume("div", g.label(ins.Pos(), ins.String(), "expr"), not(eq(y.T, "0")), ins.Pos())
			}
			// Go truncates toward zero
			t = ite(app(">=", x.T, "0"), app("div", x.T, app("abs", y.T)), app("-", app("div", app("-", x.T), app("abs", y.T))))
			t = ite(app(">=", y.T, "0"), t, app("-", t))
		}
	case token.REM:
		if g.options.safety {
			g.obligeAndAssume("div", g.label(ins.Pos(), ins.String(), "expr"), not(eq(y.T, "0")), ins.Pos())
		}
		t = ite(app(">=", x.T, "0"), app("mod", x.T, app("abs", y.T)), app("-", app("mod", app("-", x.T), app("abs", y.T))))
	case token.EQL:
		t = g.equal(x, y)
	case token.NEQ:
		t = not(g.equal(x, y))
	case token.LSS, token.LEQ, token.GTR, token.GEQ:
		op := map[token.Token]string{token.LSS: "<", token.LEQ: "<=", token.GTR: ">", token.GEQ: ">="}[ins.Op]
		if s == "String" {
			switch ins.Op {
			case token.LSS:
				t = app("str.<", x.T, y.T)
			case token.LEQ:
				t = app("str.<=", x.T, y.T)
			case token.GTR:
				t = app("str.<", y.T, x.T)
			case token.GEQ:
				t = app("str.<=", y.T, x.T)
			}
		} else {
			t = app(op, x.T, y.T)
		}
	case token.AND, token.OR, token.XOR, token.SHL, token.SHR, token.AND_NOT:
		if s == "Bool" {
			switch ins.Op {
			case token.AND:
				t = and(x.T, y.T)
			case token.OR:
				t = or(x.T, y.T)
			case token.XOR:
				t = app("xor", x.T, y.T)
			}
		}
		if t == "" {
			// bit operations on mathematical integers are left uninterpreted
			f := "bitop_" + sanitize(ins.Op.String())
			f = map[token.Token]string{token.AND: "bit_and", token.OR: "bit_or", token.XOR: "bit_xor", token.SHL: "bit_shl", token.SHR: "bit_shr", token.AND_NOT: "bit_andnot"}[ins.Op]
			g.declareFun(f, []string{"Int", "Int"}, "Int")
			t = app(f, x.T, y.T)
		}
	default:
		g.havocVal(ins)
		g.unsupportedf("binop %s", ins.Op)
		return
	}
	g.defineVal(ins, t)
}

// wrapArith models uint8 arithmetic modulo 256 (regexpSimplify subtracts bytes);
// every other integer type is mathematical.
func (g *gen) wrapArith(t types.Type, term string) string {
	if b, ok := t.Underlying().(*types.Basic); ok && b.Kind() == types.Uint8 {
		return app("mod", term, "256")
	}
	return term
}

func (g *gen) equal(x, y Val) string {
	if x.Sort == "Slice" {
		// only comparison with nil is legal
		other := x
		if strings.Contains(x.T, "mk_slice 0 0 0 0") {
			other = y
		}
		return eq(app("s_base", other.T), "0")
	}
	if x.Sort == "Iface" && y.Sort == "Iface" {
		// x == nil compares the type tag only
		if y.T == "(mk_iface 0 0)" {
			return eq(app("i_tag", x.T), "0")
		}
		if x.T == "(mk_iface 0 0)" {
			return eq(app("i_tag", y.T), "0")
		}
	}
	return eq(x.T, y.T)
}

func (g *gen) unop(ins *ssa.UnOp) {
	x := g.val(ins.X)
	switch ins.Op {
	case token.MUL: // load
		pt := ins.X.Type().Underlying().(*types.Pointer).Elem()
		if x.Place == nil {
			g.nilCheck(x, ins.Pos(), g.label(ins.Pos(), "*"+ins.X.Name(), "star", "sel", "expr"))
		}
		g.raceCheck(x, ins.Pos(), "read")
		v := g.load(x, pt)
		r := g.defineVal(ins, v.T)
		g.introduce(r, false)
		g.notePtr(r)
	case token.NOT:
		g.defineVal(ins, not(x.T))
	case token.SUB:
		g.defineVal(ins, app("-", x.T))
	case token.ARROW:
		g.havocVal(ins) // channel receive: not modelled
	case token.XOR:
		g.declareFun("bit_not", []string{"Int"}, "Int")
		g.defineVal(ins, app("bit_not", x.T))
	default:
		g.havocVal(ins)
		g.unsupportedf("unop %s", ins.Op)
	}
}

func (g *gen) convert(ins *ssa.Convert) {
	x := g.val(ins.X)
	from, to := g.st.sortOf(ins.X.Type()), g.st.sortOf(ins.Type())
	switch {
	case from == to && from != "Slice":
		// integer conversions are exact on mathematical integers, except narrowing ones
		if to == "Int" {
			if tb, ok := ins.Type().Underlying().(*types.Basic); ok && tb.Kind() == types.Uint8 {
				if fb, ok := ins.X.Type().Underlying().(*types.Basic); !ok || fb.Kind() != types.Uint8 {
					g.defineVal(ins, app("mod", x.T, "256"))
					return
				}
			}
		}
		x.Typ = ins.Type()
		g.defineVal(ins, x.T)
	case from == "Int" && to == "Real":
		g.defineVal(ins, app("to_real", x.T))
	case from == "Real" && to == "Int":
		g.defineVal(ins, app("to_int", x.T))
	case from == "Int" && to == "String":
		// string(rune)
		g.defineVal(ins, app("str.from_code", x.T))
	case from == "Slice" && to == "String":
		f := "bytes_to_string"
		g.declareFun(f, []string{arr("Int", "Int"), "Int", "Int"}, "String")
		es := "Int"
		h := g.heapGet(elemKey(es), arr("Int", arr("Int", es)))
		g.defineVal(ins, app(f, app("select", h, app("s_base", x.T)), app("s_off", x.T), app("s_len", x.T)))
	case from == "String" && to == "Slice":
		// []byte(s): fresh slice whose length is len(s); contents are tied to s by an uninterpreted function
		base := g.newAlloc("bytes")
		v := g.defineVal(ins, app("mk_slice", base, "0", app("str.len", x.T), app("str.len", x.T)))
		_ = v
		// ghost: the text the byte slice was made from
		g.declareFun("bytes_as_string", []string{"Int"}, "String")
		g.assume(eq(app("bytes_as_string", base), x.T))
	default:
		g.havocVal(ins)
		g.unsupportedf("convert %s -> %s", ins.X.Type(), ins.Type())
	}
}

func (g *gen) fieldAddr(ins *ssa.FieldAddr) {
	x := g.val(ins.X)
	pt := ins.X.Type().Underlying().(*types.Pointer).Elem()
	st, _ := structOf(pt)
	f := st.Field(ins.Field)
	name := g.st.structName(pt)
	if x.Place != nil {
		// pointer into a struct value stored inside a slice element / cell
		np := *x.Place
		np.Sub = append(append([]subStep(nil), x.Place.Sub...), subStep{St: st, Name: g.st.sortOf(pt), Field: ins.Field})
		g.setVal(ins, Val{T: x.T, Sort: "Int", Typ: ins.Type(), Place: &np})
		return
	}
	g.nilCheck(x, ins.Pos(), g.label(ins.Pos(), ins.X.Name()+"."+f.Name(), "sel"))
	if _, ok := structOf(f.Type()); ok {
		g.setVal(ins, Val{T: g.emb(name, f.Name(), x.T), Sort: "Int", Typ: ins.Type()})
		return
	}
	if _, ok := f.Type().Underlying().(*types.Array); ok {
		g.setVal(ins, Val{T: g.emb(name, f.Name(), x.T), Sort: "Int", Typ: ins.Type()})
		return
	}
	g.setVal(ins, Val{T: x.T, Sort: "Int", Typ: ins.Type(), Place: &Place{Kind: plField, Ref: x.T, Struct: name, Field: f.Name(), Elem: f.Type()}})
}

func (g *gen) indexAddr(ins *ssa.IndexAddr) {
	x := g.val(ins.X)
	i := g.val(ins.Index)
	switch u := ins.X.Type().Underlying().(type) {
	case *types.Slice:
		if g.options.safety {
			g.obligeAndAssume("index", g.label(ins.Pos(), ins.String(), "index"), and(app("<=", "0", i.T), app("<", i.T, app("s_len", x.T))), ins.Pos())
		}
		g.setVal(ins, Val{T: "0", Sort: "Int", Typ: ins.Type(), Place: &Place{Kind: plElem, Base: app("s_base", x.T), Idx: sidx(app("s_off", x.T), i.T), Elem: u.Elem()}})
	case *types.Pointer:
		a := u.Elem().Underlying().(*types.Array)
		if c, ok := ins.Index.(*ssa.Const); !ok || c.Int64() < 0 || c.Int64() >= a.Len() {
			if g.options.safety {
				g.obligeAndAssume("index", g.label(ins.Pos(), ins.String(), "index"), and(app("<=", "0", i.T), app("<", i.T, fmt.Sprint(a.Len()))), ins.Pos())
			}
		}
		if x.Place != nil {
			g.havocVal(ins)
			g.unsupportedf("index into array stored by value")
			return
		}
		g.setVal(ins, Val{T: "0", Sort: "Int", Typ: ins.Type(), Place: &Place{Kind: plElem, Base: x.T, Idx: i.T, Elem: a.Elem()}})
	default:
		g.havocVal(ins)
		g.unsupportedf("indexaddr on %s", ins.X.Type())
	}
}

func (g *gen) sliceInstr(ins *ssa.Slice) {
	x := g.val(ins.X)
	var lo, hi string
	if ins.Low != nil {
		lo = g.val(ins.Low).T
	} else {
		lo = "0"
	}
	lbl := g.label(ins.Pos(), ins.String(), "slice")
	switch u := ins.X.Type().Underlying().(type) {
	case *types.Basic: // string
		if ins.High != nil {
			hi = g.val(ins.High).T
		} else {
			hi = app("str.len", x.T)
		}
		if g.options.safety {
			g.obligeAndAssume("slice", lbl, and(app("<=", "0", lo), app("<=", lo, hi), app("<=", hi, app("str.len", x.T))), ins.Pos())
		}
		g.defineVal(ins, app("str.substr", x.T, lo, app("-", hi, lo)))
	case *types.Slice:
		if ins.High != nil {
			hi = g.val(ins.High).T
		} else {
			hi = app("s_len", x.T)
		}
		capT := app("s_cap", x.T)
		if ins.Max != nil {
			mx := g.val(ins.Max).T
			if g.options.safety {
				g.obligeAndAssume("slice", lbl, and(app("<=", "0", lo), app("<=", lo, hi), app("<=", hi, mx), app("<=", mx, capT)), ins.Pos())
			}
			capT = mx
		} else if g.options.safety {
			g.obligeAndAssume("slice", lbl, and(app("<=", "0", lo), app("<=", lo, hi), app("<=", hi, capT)), ins.Pos())
		}
		g.defineVal(ins, app("mk_slice", app("s_base", x.T), sidx(app("s_off", x.T), lo), app("-", hi, lo), app("-", capT, lo)))
	case *types.Pointer:
		a := u.Elem().Underlying().(*types.Array)
		n := fmt.Sprint(a.Len())
		if ins.High != nil {
			hi = g.val(ins.High).T
		} else {
			hi = n
		}
		if ins.Low != nil || ins.High != nil {
			if g.options.safety {
				g.obligeAndAssume("slice", lbl, and(app("<=", "0", lo), app("<=", lo, hi), app("<=", hi, n)), ins.Pos())
			}
		}
		g.defineVal(ins, app("mk_slice", x.T, lo, app("-", hi, lo), app("-", n, lo)))
	default:
		g.havocVal(ins)
		g.unsupportedf("slice of %s", ins.X.Type())
	}
}

func (g *gen) mapSorts(t types.Type) (string, string, string, string) {
	mt := t.Underlying().(*types.Map)
	ks, vs := g.st.sortOf(mt.Key()), g.st.sortOf(mt.Elem())
	return ks, vs, arr("Int", arr(ks, "Bool")), arr("Int", arr(ks, vs))
}

func (g *gen) mapHas(m Val, k string) string {
	ks, vs, ds, _ := g.mapSorts(m.Typ)
	return and(not(eq(m.T, "0")), app("select", app("select", g.heapGet(mapDomKey(ks, vs), ds), m.T), k))
}

func (g *gen) mapGet(m Val, k string) string {
	ks, vs, _, vsrt := g.mapSorts(m.Typ)
	raw := app("select", app("select", g.heapGet(mapValKey(ks, vs), vsrt), m.T), k)
	return ite(g.mapHas(m, k), raw, g.st.zeroSort(vs))
}

func (g *gen) lookup(ins *ssa.Lookup) {
	x := g.val(ins.X)
	i := g.val(ins.Index)
	if _, ok := ins.X.Type().Underlying().(*types.Map); !ok {
		// string index
		if g.options.safety {
			g.obligeAndAssume("index", g.label(ins.Pos(), ins.String(), "index"), and(app("<=", "0", i.T), app("<", i.T, app("str.len", x.T))), ins.Pos())
		}
		g.defineVal(ins, app("str.to_code", app("str.at", x.T, i.T)))
		return
	}
	mt := ins.X.Type().Underlying().(*types.Map)
	v := Val{T: g.mapGet(x, i.T), Sort: g.st.sortOf(mt.Elem()), Typ: mt.Elem()}
	v.T = g.define("lk", v.Sort, v.T)
	g.introduce(v, false)
	g.notePtr(v)
	if ins.CommaOk {
		ok := Val{T: g.mapHas(x, i.T), Sort: "Bool", Typ: types.Typ[types.Bool]}
		g.vals[ins] = Val{Tuple: []Val{v, ok}}
	} else {
		g.vals[ins] = v
	}
}

func (g *gen) mapUpdate(ins *ssa.MapUpdate) {
	m := g.val(ins.Map)
	k := g.val(ins.Key)
	v := g.val(ins.Value)
	if g.options.safety {
		g.nilCheck(m, ins.Pos(), g.label(ins.Pos(), ins.Map.Name()+"[...] = ...", "index"))
	}
	g.frameCheck(m, ins.Pos())
	ks, vs, ds, vsrt := g.mapSorts(ins.Map.Type())
	dk, vk := mapDomKey(ks, vs), mapValKey(ks, vs)
	d := g.heapGet(dk, ds)
	g.heapSet(dk, ds, app("store", d, m.T, app("store", app("select", d, m.T), k.T, "true")))
	vv := g.heapGet(vk, vsrt)
	g.heapSet(vk, vsrt, app("store", vv, m.T, app("store", app("select", vv, m.T), k.T, v.T)))
}

// next models one step of a range over a map or string: an arbitrary element.
func (g *gen) next(ins *ssa.Next) {
	it := g.val(ins.Iter)
	tup := ins.Type().(*types.Tuple)
	ok := g.freshVal("next_ok", types.Typ[types.Bool])
	kt, vt := tup.At(1).Type(), tup.At(2).Type()
	if it.Typ != nil {
		if mt, isMap := it.Typ.Underlying().(*types.Map); isMap {
			// unused components are typed "invalid" by go/ssa: fall back to the map's own types
			if b, bad := kt.(*types.Basic); bad && b.Kind() == types.Invalid {
				kt = mt.Key()
			}
			if b, bad := vt.(*types.Basic); bad && b.Kind() == types.Invalid {
				vt = mt.Elem()
			}
		}
	}
	k := g.freshVal("next_k", kt)
	v := g.freshVal("next_v", vt)
	if ins.IsString {
		g.assume(implies(ok.T, and(app("<=", "0", k.T), app("<", k.T, app("str.len", it.T)))))
	} else if it.Typ != nil {
		if _, isMap := it.Typ.Underlying().(*types.Map); isMap {
			g.assume(implies(ok.T, and(g.mapHas(it, k.T), eq(v.T, g.mapGet(it, k.T)))))
			g.notePtr(v)
			if rng, isR := ins.Iter.(*ssa.Range); isR {
				key := "RG|" + rng.Name()
				ks, vs, ds, _ := g.mapSorts(it.Typ)
				seen := g.heapGet(key, arr(ks, "Bool"))
				g.assume(implies(ok.T, not(app("select", seen, k.T))))
				q := g.freshName("rk")
				dom := app("select", g.heapGet(mapDomKey(ks, vs), ds), it.T)
				g.assume(implies(not(ok.T), fmt.Sprintf("(forall ((%s %s)) (! (=> (select %s %s) (select %s %s)) :pattern ((select %s %s))))", q, ks, dom, q, seen, q, seen, q)))
				g.heapSet(key, arr(ks, "Bool"), ite(ok.T, app("store", seen, k.T, "true"), seen))
			}
		}
	}
	g.vals[ins] = Val{Tuple: []Val{ok, k, v}}
}

func (g *gen) typeAssert(ins *ssa.TypeAssert) {
	x := g.val(ins.X)
	var okT, valT string
	if types.IsInterface(ins.AssertedType) {
		okT = and(not(eq(app("i_tag", x.T), "0")), app(g.implFn(ins.AssertedType), app("i_tag", x.T)))
		if it, ok := ins.AssertedType.Underlying().(*types.Interface); ok && it.Empty() {
			okT = not(eq(app("i_tag", x.T), "0"))
		}
		valT = x.T
	} else {
		tag := g.st.tagOf(ins.AssertedType)
		okT = eq(app("i_tag", x.T), fmt.Sprint(tag))
		valT = g.unbox(app("i_val", x.T), g.st.sortOf(ins.AssertedType))
	}
	s := g.st.sortOf(ins.AssertedType)
	if ins.CommaOk {
		okN := g.define(ins.Name()+"_ok", "Bool", okT)
		v := Val{T: g.define(ins.Name()+"_v", s, ite(okN, valT, g.st.zeroSort(s))), Sort: s, Typ: ins.AssertedType}
		g.introduce(v, false)
		g.notePtr(v)
		g.vals[ins] = Val{Tuple: []Val{v, {T: okN, Sort: "Bool", Typ: types.Typ[types.Bool]}}}
		return
	}
	if g.options.safety {
		g.obligeAndAssume("typeassert", g.label(ins.Pos(), ins.String(), "assert"), okT, ins.Pos())
	}
	r := g.defineVal(ins, valT)
	g.introduce(r, false)
	g.notePtr(r)
}

func (g *gen) ret(ins *ssa.Return) {
	var rs []Val
	for _, r := range ins.Results {
		rs = append(rs, g.val(r))
	}
	if g.inl != nil {
		// return from an inlined callee: remember where, in which state and with what
		g.inl.rets = append(g.inl.rets, inlineRet{reach: g.curReach, st: g.cur.clone(), vals: rs})
		return
	}
	g.retVals = append(g.retVals, rs)
	if g.ctr == nil {
		return
	}
	env := g.specEnvHere()
	g.bindResults(env, g.fn.Signature, rs)
	// obligations inherited from the contract of the interface method this method implements
	for _, ic := range g.ifaceCtrs {
		ienv := g.specEnvHere()
		g.bindResults(ienv, g.fn.Signature, rs)
		if len(g.fn.Params) > 0 {
			ienv.vars["recv"] = g.val(g.fn.Params[0])
			for i, p := range g.fn.Params[1:] {
				ienv.vars[fmt.Sprintf("arg%d", i)] = g.val(p)
			}
		}
		for _, en := range ic.Ensures {
			t, err := g.evalBool(ienv, en.E)
			if err != nil {
				g.contractErr("iface-ensures", en.Label, err)
				continue
			}
			g.oblige("post", "implements "+ic.Key+": "+en.Label, t, ins.Pos(), en.Props)
		}
	}
	for _, en := range g.ctr.Ensures {
		t, err := g.evalBool(env, en.E)
		if err != nil {
			g.contractErr("ensures", en.Label, err)
			continue
		}
		g.oblige("post", en.Label, t, ins.Pos(), en.Props)
	}
}

func (g *gen) bindResults(env *specEnv, sig *types.Signature, rs []Val) {
	res := sig.Results()
	for i, r := range rs {
		env.vars[fmt.Sprintf("result%d", i)] = r
		if i < res.Len() && res.At(i).Name() != "" && res.At(i).Name() != "_" {
			env.vars[res.At(i).Name()+"$result"] = r
		}
	}
	if len(rs) >= 1 {
		env.vars["result"] = rs[0]
	}
}

type debugRef struct {
	v      ssa.Value
	isAddr bool
	obj    types.Object
}

func isConstLike(v ssa.Value) bool {
	switch v.(type) {
	case *ssa.Const, *ssa.Global, *ssa.Function:
		return true
	}
	return false
}

type stableCell struct {
	ref, key string
	once     bool // stored only in the entry block: survives loop cuts as well
}

// cellWrittenElsewhere: can code outside this function body (closures, callees) store into the local variable?
func cellWrittenElsewhere(a *ssa.Alloc) bool {
	if a.Referrers() == nil {
		return false
	}
	var fvWritten func(fn *ssa.Function, fv *ssa.FreeVar, depth int) bool
	fvWritten = func(fn *ssa.Function, fv *ssa.FreeVar, depth int) bool {
		if depth > 5 || fv.Referrers() == nil {
			return true
		}
		for _, r := range *fv.Referrers() {
			switch r := r.(type) {
			case *ssa.Store:
				if r.Addr == ssa.Value(fv) {
					return true
				}
			case *ssa.UnOp, *ssa.DebugRef:
			case *ssa.MakeClosure:
				inner := r.Fn.(*ssa.Function)
				for i, b := range r.Bindings {
					if b == ssa.Value(fv) && fvWritten(inner, inner.FreeVars[i], depth+1) {
						return true
					}
				}
			default:
				return true // address used in some other way (passed on, field address, ...)
			}
		}
		return false
	}
	for _, r := range *a.Referrers() {
		switch r := r.(type) {
		case *ssa.Store:
			if r.Val == ssa.Value(a) {
				return true // the address itself is stored somewhere
			}
		case *ssa.UnOp, *ssa.DebugRef:
		case *ssa.MakeClosure:
			inner := r.Fn.(*ssa.Function)
			for i, b := range r.Bindings {
				if b == ssa.Value(a) && fvWritten(inner, inner.FreeVars[i], 0) {
					return true
				}
			}
		default:
			return true
		}
	}
	return false
}


// storedOnceAtEntry: the only store to the cell happens in the entry block (a spilled parameter, a variable
// initialised once and then only read): loops of the function cannot change it either.
func storedOnceAtEntry(a *ssa.Alloc) bool {
	if a.Referrers() == nil || a.Block() == nil || a.Block().Index != 0 {
		return false
	}
	n := 0
	for _, r := range *a.Referrers() {
		if st, ok := r.(*ssa.Store); ok && st.Addr == ssa.Value(a) {
			n++
			if st.Block() == nil || st.Block().Index != 0 {
				return false
			}
		}
	}
	return n <= 1
}


// structLocalPrivate: every use of the struct-typed local is a field address that is loaded from or stored to, a load or a
// store of the whole value; its address is never passed on.
func structLocalPrivate(a *ssa.Alloc) bool {
	var okAddr func(v ssa.Value, depth int) bool
	okAddr = func(v ssa.Value, depth int) bool {
		if depth > 4 || v.Referrers() == nil {
			return false
		}
		for _, r := range *v.Referrers() {
			switch r := r.(type) {
			case *ssa.FieldAddr:
				if r.X != v || !okAddr(r, depth+1) {
					return false
				}
			case *ssa.UnOp, *ssa.DebugRef:
			case *ssa.Store:
				if r.Val == v {
					return false
				}
			default:
				return false
			}
		}
		return true
	}
	return okAddr(a, 0)
}

func (g *gen) addStableStruct(ref string, t types.Type, st *types.Struct, depth int) {
	if depth > 2 {
		return
	}
	name := g.st.structName(t)
	for i := 0; i < st.NumFields(); i++ {
		f := st.Field(i)
		if inner, ok := structOf(f.Type()); ok {
			g.addStableStruct(g.emb(name, f.Name(), ref), f.Type(), inner, depth+1)
			continue
		}
		g.stableCells = append(g.stableCells, stableCell{ref: ref, key: fieldKey(name, f.Name())})
	}
}
