package main

import (
	"fmt"
	"go/types"
	"hash/fnv"
	"sort"
	"strconv"
	"strings"
)

// ---------------------------------------------------------------------------
// Symbolic values

type Val struct {
	T     string     // SMT term
	Sort  string     // SMT sort
	Typ   types.Type // Go type (nil for spec-only values)
	Place *Place     // pointer represented as a place (field / element / sub-path)
	Tuple []Val      // multi-value results
	Fn    *closureVal
}

const (
	plField = iota // struct field of an object with identity: F|S|f [ref]
	plElem         // slice/array element: E|sort [base][idx]
	plCell         // pointer to a non-struct value: C|sort [ref]
	plMap          // whole contents of a map object (assigns clauses only)
)

type Place struct {
	Kind   int
	Ref    string // plField, plCell
	Struct string // struct name for plField
	Field  string
	Base   string // plElem
	Idx    string
	Elem   types.Type // Go type of what is stored at the place root
	Sub    []subStep  // path into a datatype value stored there
	MapT   types.Type // plMap
}

type subStep struct {
	St    *types.Struct
	Name  string // struct sort name
	Field int
}

func and(xs ...string) string {
	var ys []string
	for _, x := range xs {
		if x == "true" || x == "" {
			continue
		}
		if x == "false" {
			return "false"
		}
		ys = append(ys, x)
	}
	switch len(ys) {
	case 0:
		return "true"
	case 1:
		return ys[0]
	}
	return "(and " + strings.Join(ys, " ") + ")"
}

func or(xs ...string) string {
	var ys []string
	for _, x := range xs {
		if x == "false" || x == "" {
			continue
		}
		if x == "true" {
			return "true"
		}
		ys = append(ys, x)
	}
	switch len(ys) {
	case 0:
		return "false"
	case 1:
		return ys[0]
	}
	return "(or " + strings.Join(ys, " ") + ")"
}

func not(x string) string {
	switch x {
	case "true":
		return "false"
	case "false":
		return "true"
	}
	if strings.HasPrefix(x, "(not ") && balanced(x[5:len(x)-1]) {
		return x[5 : len(x)-1]
	}
	return "(not " + x + ")"
}

func balanced(s string) bool {
	d := 0
	inStr := false
	for i := 0; i < len(s); i++ {
		switch s[i] {
		case '"':
			inStr = !inStr
		case '(':
			if !inStr {
				d++
			}
		case ')':
			if !inStr {
				d--
				if d < 0 {
					return false
				}
			}
		}
	}
	return d == 0
}

func implies(a, b string) string {
	if a == "true" {
		return b
	}
	if a == "false" || b == "true" {
		return "true"
	}
	return "(=> " + a + " " + b + ")"
}

func ite(c, a, b string) string {
	if c == "true" {
		return a
	}
	if c == "false" {
		return b
	}
	if a == b {
		return a
	}
	return "(ite " + c + " " + a + " " + b + ")"
}

func eq(a, b string) string {
	if a == b {
		return "true"
	}
	return "(= " + a + " " + b + ")"
}

func app(f string, args ...string) string {
	return "(" + f + " " + strings.Join(args, " ") + ")"
}

// sidx wraps "offset + index" in an uninterpreted function (axiom in the prelude) so that
// quantified element facts have matchable triggers.
func sidx(off, i string) string {
	if off == "0" {
		return i
	}
	// a constant index 0 keeps its wrapper: the quantified element facts of the theories are triggered on the term
	// (sidx off i), and "xs[0]" written as plain "off" never matched them
	return "(sidx " + off + " " + i + ")"
}

func intLit(n int64) string {
	if n < 0 {
		return "(- " + strconv.FormatInt(-n, 10) + ")"
	}
	return strconv.FormatInt(n, 10)
}

// smtString renders a Go string as an SMT-LIB 2.6 string literal.
func smtString(s string) string {
	var sb strings.Builder
	sb.WriteByte('"')
	for i := 0; i < len(s); i++ {
		c := s[i]
		switch {
		case c == '"':
			sb.WriteString(`""`)
		case c == '\\':
			sb.WriteString(`\u{5c}`)
		case c >= 0x20 && c < 0x7f:
			sb.WriteByte(c)
		default:
			fmt.Fprintf(&sb, `\u{%x}`, c)
		}
	}
	sb.WriteByte('"')
	return sb.String()
}

func sanitize(s string) string {
	if s == "_" {
		return "blank_"
	}
	var sb strings.Builder
	for _, r := range s {
		switch {
		case r >= 'a' && r <= 'z', r >= 'A' && r <= 'Z', r >= '0' && r <= '9', r == '_':
			sb.WriteRune(r)
		case r == '.', r == '/', r == '-':
			sb.WriteByte('_')
		case r == '*':
			sb.WriteString("ptr_")
		case r == '[':
			sb.WriteString("L")
		case r == ']':
			sb.WriteString("J")
		default:
			sb.WriteString("_")
		}
	}
	return sb.String()
}

// ---------------------------------------------------------------------------
// Sorts

type sortTable struct {
	structs   map[string]*structSort // by name
	order     []string
	anon      map[string]string
	tags      map[string]int // type string -> tag
	tagTypes  []types.Type
	boxes     map[string]bool // sorts for which box/unbox are declared
	impls     map[string]types.Type
	implOrder []string
}

type structSort struct {
	Name   string
	St     *types.Struct
	Fields []string // field sorts
}

func newSortTable() *sortTable {
	return &sortTable{structs: map[string]*structSort{}, anon: map[string]string{}, tags: map[string]int{}, boxes: map[string]bool{}, impls: map[string]types.Type{}}
}

func typeName(t types.Type) string {
	switch t := t.(type) {
	case *types.Named:
		o := t.Obj()
		n := o.Name()
		if o.Pkg() != nil {
			n = shortPkg(o.Pkg().Path()) + "." + n
		}
		if ta := t.TypeArgs(); ta != nil && ta.Len() > 0 {
			var as []string
			for i := 0; i < ta.Len(); i++ {
				as = append(as, typeName(ta.At(i)))
			}
			n += "[" + strings.Join(as, ",") + "]"
		}
		return n
	case *types.Alias:
		return typeName(types.Unalias(t))
	case *types.Pointer:
		return "*" + typeName(t.Elem())
	case *types.Slice:
		return "[]" + typeName(t.Elem())
	case *types.Array:
		return fmt.Sprintf("[%d]%s", t.Len(), typeName(t.Elem()))
	case *types.Map:
		return "map[" + typeName(t.Key()) + "]" + typeName(t.Elem())
	case *types.Basic:
		return t.Name()
	}
	return types.TypeString(t, func(p *types.Package) string { return shortPkg(p.Path()) })
}

func (st *sortTable) structName(t types.Type) string {
	if n, ok := types.Unalias(t).(*types.Named); ok {
		return typeName(n)
	}
	s := typeName(t)
	if n, ok := st.anon[s]; ok {
		return n
	}
	h := fnv.New32a()
	h.Write([]byte(s))
	n := fmt.Sprintf("anon%08x", h.Sum32())
	st.anon[s] = n
	return n
}

func (st *sortTable) sortOf(t types.Type) string {
	if t == nil {
		return "Int"
	}
	switch u := t.Underlying().(type) {
	case *types.Basic:
		switch {
		case u.Info()&types.IsBoolean != 0:
			return "Bool"
		case u.Info()&types.IsInteger != 0:
			return "Int"
		case u.Info()&types.IsString != 0:
			return "String"
		case u.Info()&types.IsFloat != 0:
			return "Real"
		}
		return "Int"
	case *types.Pointer, *types.Map, *types.Chan, *types.Signature, *types.TypeParam:
		return "Int"
	case *types.Slice:
		return "Slice"
	case *types.Interface:
		return "Iface"
	case *types.Array:
		return "(Array Int " + st.sortOf(u.Elem()) + ")"
	case *types.Struct:
		name := st.structName(t)
		sn := "S_" + sanitize(name)
		if _, ok := st.structs[sn]; !ok {
			ss := &structSort{Name: sn, St: u}
			st.structs[sn] = ss // placeholder against recursion through pointers (pointers are Int anyway)
			for i := 0; i < u.NumFields(); i++ {
				ss.Fields = append(ss.Fields, st.sortOf(u.Field(i).Type()))
			}
			st.order = append(st.order, sn)
		}
		return sn
	case *types.Tuple:
		return "Int"
	}
	return "Int"
}

func (st *sortTable) accessor(sn string, i int) string {
	ss := st.structs[sn]
	return sn + "!" + sanitize(ss.St.Field(i).Name()) + strconv.Itoa(i)
}

func (st *sortTable) zero(t types.Type) string {
	return st.zeroSort(st.sortOf(t))
}

func (st *sortTable) zeroSort(s string) string {
	switch s {
	case "Int":
		return "0"
	case "Bool":
		return "false"
	case "String":
		return `""`
	case "Real":
		return "0.0"
	case "Slice":
		return "(mk_slice 0 0 0 0)"
	case "Iface":
		return "(mk_iface 0 0)"
	}
	if strings.HasPrefix(s, "(Array Int ") {
		inner := s[len("(Array Int ") : len(s)-1]
		return "((as const " + s + ") " + st.zeroSort(inner) + ")"
	}
	if ss, ok := st.structs[s]; ok {
		if len(ss.Fields) == 0 {
			return "mk_" + s
		}
		var zs []string
		for _, f := range ss.Fields {
			zs = append(zs, st.zeroSort(f))
		}
		return "(mk_" + s + " " + strings.Join(zs, " ") + ")"
	}
	return "0"
}

func (st *sortTable) tagOf(t types.Type) int {
	k := typeName(t)
	if id, ok := st.tags[k]; ok {
		return id
	}
	id := len(st.tags) + 1
	st.tags[k] = id
	st.tagTypes = append(st.tagTypes, t)
	return id
}

func (st *sortTable) prelude() string {
	var sb strings.Builder
	sb.WriteString("(declare-datatypes ((Slice 0)) (((mk_slice (s_base Int) (s_off Int) (s_len Int) (s_cap Int)))))\n")
	sb.WriteString("(declare-datatypes ((Iface 0)) (((mk_iface (i_tag Int) (i_val Int)))))\n")
	sb.WriteString("@SIDX@")
	// struct sorts in dependency order (a struct is appended after the sorts of its fields were requested)
	done := map[string]bool{}
	var emit func(sn string)
	emit = func(sn string) {
		if done[sn] {
			return
		}
		done[sn] = true
		ss := st.structs[sn]
		for _, f := range ss.Fields {
			for dep := range st.structs {
				if strings.Contains(f, dep) && dep != sn && (f == dep || strings.Contains(f, " "+dep+")")) {
					emit(dep)
				}
			}
		}
		if len(ss.Fields) == 0 {
			fmt.Fprintf(&sb, "(declare-datatypes ((%s 0)) (((mk_%s))))\n", sn, sn)
			return
		}
		fmt.Fprintf(&sb, "(declare-datatypes ((%s 0)) (((mk_%s", sn, sn)
		for i, f := range ss.Fields {
			fmt.Fprintf(&sb, " (%s %s)", st.accessor(sn, i), f)
		}
		sb.WriteString("))))\n")
	}
	names := append([]string(nil), st.order...)
	sort.Strings(names)
	for _, sn := range names {
		emit(sn)
	}
	return sb.String()
}
