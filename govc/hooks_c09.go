package main

import (
	"fmt"
	"go/ast"
	"go/importer"
	"go/parser"
	"go/token"
	"go/types"
	"sort"
	"strings"
)

// C09 on rule data (DESIGN §7 C09). For every rule that carries a machine-applicable fix (SuggestTemplate):
//   (1) pattern and suggestion parse as Go of the same syntactic category (expression / statement list) once the
//       pattern variables are replaced by identifiers - placeholders such as `{ ... }` are not Go;
//   (2) the fix does not swallow code: every variadic wildcard of the pattern ($*x) reappears in the suggestion
//       (an anonymous $*_ cannot), so no statement or argument that merely sits inside the matched range is deleted;
//   (3) type preservation, decided by go/types (not by an SMT solver): for every assignment of types to the pattern
//       variables that the rule's filters allow - exact types for Type.Is, the type itself and a defined type over it for
//       Type.Underlying().Is, a witness type for Type.Implements, and for unconstrained variables every type of a small
//       candidate list under which the pattern type-checks - the suggestion type-checks and has the pattern's type
//       (up to the default type of untyped constants). The candidate list makes (3) a BOUNDED check for
//       unconstrained variables; it is exact for variables constrained by filters.
// Hand-written checkers: the comment-formatting fix is under contract (range, replacement, freshness of the bytes).

var c09Candidates = []string{"string", "[]byte", "int", "rune", "error", "*bytes.Buffer", "context.Context", "io.Reader", "*regexp.Regexp", "time.Time", "[]string", "[]int", "[]float64"}

const c09Prelude = `package p

import (
	"bytes"
	"context"
	"errors"
	"fmt"
	"io"
	"net/http"
	"net/http/httptest"
	"os"
	"path/filepath"
	"reflect"
	"regexp"
	"sort"
	"strings"
	"sync"
	"time"
	"unicode/utf8"
)

var _ = bytes.Equal
var _ context.Context
var _ = errors.New
var _ = fmt.Sprint
var _ io.Writer
var _ = http.NoBody
var _ = httptest.NewRequest
var _ = os.PathSeparator
var _ = filepath.Join
var _ reflect.Value
var _ *regexp.Regexp
var _ = sort.Ints
var _ = strings.Index
var _ sync.Mutex
var _ time.Time
var _ = utf8.RuneLen

type DString string
type DBytes []byte
type DInts []int
type stringerT struct{}

func (stringerT) String() string { return "" }

type writerT struct{}

func (writerT) Write(p []byte) (int, error)       { return 0, nil }
func (writerT) WriteString(s string) (int, error) { return 0, nil }

func probeScope() {
}
`

// typesAllowedBy returns the types variable v may have according to the rule's filters (nil = unconstrained).
func typesAllowedBy(r *irRule, v string) ([]string, bool) {
	var out []string
	known := true
	for _, cj := range r.Where.conjuncts() {
		if cj.Value != v || len(cj.Args) != 1 {
			continue
		}
		a := cj.Args[0].Value
		switch cj.Op {
		case "FilterVarTypeIsOp":
			switch a {
			case "[]$_":
				out = append(out, "[]int", "[]string")
			case "string", "[]byte", "*regexp.Regexp", "[]int", "[]float64", "[]string", "error", "int", "*sync.Map", "sync.Map", "time.Time", "*time.Time":
				out = append(out, a)
			default:
				known = false
			}
		case "FilterVarTypeUnderlyingIsOp":
			switch a {
			case "string":
				out = append(out, "string", "DString")
			case "[]byte":
				out = append(out, "[]byte", "DBytes")
			case "[]int":
				out = append(out, "[]int", "DInts")
			default:
				known = false
			}
		case "FilterVarTypeImplementsOp":
			switch a {
			case "fmt.Stringer":
				out = append(out, "stringerT")
			case "io.Writer", "io.StringWriter":
				out = append(out, "writerT", "*bytes.Buffer")
			case "error":
				out = append(out, "error")
			default:
				known = false
			}
		}
	}
	return out, known
}

type c09Checker struct {
	fset *token.FileSet
	pkg  *types.Package
	pos  token.Pos
	err  error
}

// varName: the probe package declares one variable per candidate type; pattern variables of that type are replaced by it
func c09VarName(t string) string {
	return "c_" + sanitize(t)
}

func newC09Checker(allTypes []string) *c09Checker {
	cc := &c09Checker{fset: token.NewFileSet()}
	var sb strings.Builder
	sb.WriteString(c09Prelude)
	seen := map[string]bool{}
	for _, t := range allTypes {
		if !seen[t] {
			seen[t] = true
			fmt.Fprintf(&sb, "var %s %s\n", c09VarName(t), t)
		}
	}
	f, err := parser.ParseFile(cc.fset, "probe.go", sb.String(), 0)
	if err != nil {
		cc.err = err
		return cc
	}
	conf := types.Config{Importer: importer.ForCompiler(cc.fset, "source", nil)}
	cc.pkg, cc.err = conf.Check("p", cc.fset, []*ast.File{f}, nil)
	// expressions are evaluated inside the file (imports are file-scoped): at the end of the body of probeScope
	ast.Inspect(f, func(n ast.Node) bool {
		if fd, ok := n.(*ast.FuncDecl); ok && fd.Name.Name == "probeScope" {
			cc.pos = fd.Body.Rbrace
		}
		return true
	})
	return cc
}

func c09Subst(tmpl string, tv map[string]string) string {
	return patVarRe.ReplaceAllStringFunc(strings.ReplaceAll(tmpl, "$$", "v___"), func(m string) string {
		name := strings.TrimPrefix(strings.TrimPrefix(m, "$"), "*")
		if t, ok := tv[name]; ok {
			return c09VarName(t)
		}
		return "v_" + name
	})
}

// check type-checks pattern and suggestion as expressions under the variable typing tv (types.Eval in the scope of the
// probe package); returns (patternOK, suggestionOK, sameType, message).
func (cc *c09Checker) check(pat, sug string, vars []string, tv map[string]string) (bool, bool, bool, string) {
	pt, err := types.Eval(cc.fset, cc.pkg, cc.pos, c09Subst(pat, tv))
	if err != nil || pt.Type == nil {
		return false, false, false, ""
	}
	st, err := types.Eval(cc.fset, cc.pkg, cc.pos, c09Subst(sug, tv))
	if err != nil {
		return true, false, false, err.Error()
	}
	if st.Type == nil {
		return true, false, false, "the fix has no value"
	}
	a, b := types.Default(pt.Type), types.Default(st.Type)
	if !types.Identical(a, b) {
		return true, true, false, fmt.Sprintf("the pattern has type %s, the suggestion %s", a, b)
	}
	return true, true, true, ""
}

func substVars(tmpl string) string {
	return patVarRe.ReplaceAllStringFunc(strings.ReplaceAll(tmpl, "$$", "v___"), func(m string) string {
		name := strings.TrimPrefix(strings.TrimPrefix(m, "$"), "*")
		if strings.HasPrefix(m, "$*") {
			return "v_" + name + "..."
		}
		return "v_" + name
	})
}

func parsesAs(tmpl string) string {
	src := substVars(tmpl)
	src = strings.ReplaceAll(src, "...)", ")") // variadic wildcard in argument position
	if _, err := parser.ParseExpr(src); err == nil {
		return "expr"
	}
	if _, err := parser.ParseFile(token.NewFileSet(), "t.go", "package p\nfunc f() {\n"+src+"\n}\n", 0); err == nil {
		return "stmt"
	}
	return ""
}

func init() {
	registerHook("C09", func(c *checkCtx) {
		groups, ok := c.ruleData()
		if !ok {
			return
		}
		all := append([]string{}, c09Candidates...)
		all = append(all, "DString", "DBytes", "DInts", "stringerT", "writerT", "*sync.Map", "sync.Map", "*time.Time")
		cc := newC09Checker(all)
		if cc.err != nil {
			c.direct = append(c.direct, &directResult{Name: "rules/type-probe-package-builds", OK: false, Detail: cc.err.Error()})
			return
		}
		nfix, ntyped, nbounded := 0, 0, 0
		var skipped []string
		for _, g := range groups {
			for i, r := range g.Rules {
				if r.Suggest == "" {
					continue
				}
				nfix++
				base := fmt.Sprintf("rules/%s/rule#%d", g.Name, i+1)
				sc := parsesAs(r.Suggest)
				c.direct = append(c.direct, &directResult{Name: base + "/suggestion-is-go", OK: sc != "", Detail: fmt.Sprintf("the fix text %q does not parse as a Go expression or statement list (placeholders are not Go)", r.Suggest)})
				for j, pat := range r.Patterns {
					pn := fmt.Sprintf("%s/pattern#%d", base, j+1)
					pc := parsesAs(pat)
					if sc != "" {
						sameCat := pc == sc
						if pc == "stmt" && sc == "expr" {
							// a call is a statement as well
							if e, err := parser.ParseExpr(strings.ReplaceAll(substVars(r.Suggest), "...)", ")")); err == nil {
								_, sameCat = e.(*ast.CallExpr)
							}
						}
						c.direct = append(c.direct, &directResult{Name: pn + "/same-syntactic-category", OK: sameCat, Detail: fmt.Sprintf("pattern %q is a %s, the fix %q a %s", pat, pc, r.Suggest, sc)})
					}
					// (2) nothing inside the matched range is dropped
					dropped := ""
					for _, m := range patVarRe.FindAllString(pat, -1) {
						if strings.HasPrefix(m, "$*") {
							name := strings.TrimPrefix(m, "$*")
							if name == "_" || !(strings.Contains(r.Suggest, "$"+name) || strings.Contains(r.Suggest, "$*"+name)) {
								dropped = m
							}
						}
					}
					c.direct = append(c.direct, &directResult{Name: pn + "/fix-keeps-everything-the-wildcards-matched", OK: dropped == "",
						Detail: fmt.Sprintf("pattern %q matches arbitrary code with %s, the fix %q replaces the whole matched range and does not reproduce it: that code is deleted", pat, dropped, r.Suggest)})
					// (3) type preservation for expression rules
					if pc != "expr" || sc != "expr" || strings.Contains(pat, "$*") {
						skipped = append(skipped, pn)
						continue
					}
					vars := uniq(varOccurrences(pat))
					for _, v := range varOccurrences(r.Suggest) {
						found := false
						for _, w := range vars {
							if w == v {
								found = true
							}
						}
						if !found {
							vars = append(vars, v)
						}
					}
					dom := map[string][]string{}
					bounded := false
					okDom := true
					for _, v := range vars {
						ts, known := typesAllowedBy(r, v)
						if !known {
							okDom = false
						}
						if len(ts) == 0 {
							ts = c09Candidates
							bounded = true
						}
						dom[v] = ts
					}
					if !okDom || len(vars) > 4 {
						skipped = append(skipped, pn)
						continue
					}
					ps, ss := pat, r.Suggest
					anyTyping := false
					bad := ""
					var rec func(k int, tv map[string]string)
					rec = func(k int, tv map[string]string) {
						if bad != "" {
							return
						}
						if k == len(vars) {
							pOK, sOK, same, msg := cc.check(ps, ss, vars, tv)
							if !pOK {
								return
							}
							anyTyping = true
							if !sOK || !same {
								var parts []string
								for _, v := range vars {
									parts = append(parts, "$"+v+" "+tv[v])
								}
								bad = fmt.Sprintf("with %s the pattern type-checks but the fix does not keep its type: %s", strings.Join(parts, ", "), msg)
							}
							return
						}
						for _, t := range dom[vars[k]] {
							tv[vars[k]] = t
							rec(k+1, tv)
						}
					}
					rec(0, map[string]string{})
					if !anyTyping {
						skipped = append(skipped, pn)
						continue
					}
					ntyped++
					if bounded {
						nbounded++
					}
					c.direct = append(c.direct, &directResult{Name: pn + "/fix-type-checks-and-keeps-the-type", OK: bad == "", Detail: fmt.Sprintf("pattern %q, fix %q: %s", pat, r.Suggest, bad)})
				}
			}
		}
		sort.Strings(skipped)
		c.extraEv["rules_with_machine_applicable_fix"] = nfix
		c.extraEv["patterns_type_checked"] = ntyped
		c.extraEv["patterns_type_checked_over_the_candidate_list_only(bounded)"] = nbounded
		c.extraEv["patterns_not_type_checked"] = skipped
		c.extraEv["decided_by_types"] = "go/types on synthesized probes (type preservation); syntactic decisions on the templates; no SMT solver"
		c.assumed["rule engine: the QuickFix replaces exactly the source range of the matched node(s) with the expanded Suggest template (ruleguard, dependency)"] = true
		c.assumed["type filters restrict a pattern variable exactly as documented by ruleguard (Type.Is: identical type, Underlying().Is: identical underlying type, Implements: method set)"] = true
	})
}

func uniq(xs []string) []string {
	seen := map[string]bool{}
	var out []string
	for _, x := range xs {
		if !seen[x] {
			seen[x] = true
			out = append(out, x)
		}
	}
	return out
}
