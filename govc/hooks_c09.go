package main

import (
	"fmt"
	"go/ast"
	"go/importer"
	"go/parser"
	"go/token"
	"go/types"
	"regexp"
	"sort"
	"strings"
)

// C09 on rule data (DESIGN §7 C09). For every rule that carries a machine-applicable fix (SuggestTemplate):
//   (1) pattern and suggestion parse as Go of the same syntactic category (expression / statement list) once the
//       pattern variables are replaced by identifiers - placeholders such as `{ ... }` are not Go;
//   (2) the fix does not swallow code: every variadic wildcard of the pattern ($*x) reappears in the suggestion
//       (an anonymous $*_ cannot), so no statement or argument that merely sits inside the matched range is deleted;
//   (3) type preservation, decided by go/types (not by an SMT solver): for every assignment of types to the pattern
//       variables that the rule's filters allow - exact types for Type.Is, the type itself and a defined type over it for
//       Type.Underlying().Is, a witness type for Type.Implements, and for unconstrained variables every type of a small
//       candidate list under which the pattern type-checks - the suggestion type-checks and has the pattern's type
//       (up to the default type of untyped constants). The candidate list makes (3) a BOUNDED check for
//       unconstrained variables; it is exact for variables constrained by filters.
// Hand-written checkers: the comment-formatting fix is under contract (range, replacement, freshness of the bytes).

var c09Candidates = []string{"string", "[]byte", "int", "rune", "error", "*bytes.Buffer", "context.Context", "io.Reader", "*regexp.Regexp", "time.Time", "[]string", "[]int", "[]float64", c09Tuple}

// c09Tuple stands for an operand that is a call with two results (f() where f returns (string, int)): legal as the only
// argument of a call, e.g. fmt.Errorf(f())
const c09Tuple = "(string, int)"

const c09Prelude = `package p

import (
	"bytes"
	"context"
	"errors"
	"fmt"
	"io"
	"net/http"
	"net/http/httptest"
	"os"
	"path/filepath"
	"reflect"
	"regexp"
	"sort"
	"strings"
	"sync"
	"time"
	"unicode/utf8"
)

var _ = bytes.Equal
var _ context.Context
var _ = errors.New
var _ = fmt.Sprint
var _ io.Writer
var _ = http.NoBody
var _ = httptest.NewRequest
var _ = os.PathSeparator
var _ = filepath.Join
var _ reflect.Value
var _ *regexp.Regexp
var _ = sort.Ints
var _ = strings.Index
var _ sync.Mutex
var _ time.Time
var _ = utf8.RuneLen

type DString string
type DBytes []byte
type DInts []int
type stringerT struct{}

func (stringerT) String() string { return "" }

type writerT struct{}

func (writerT) Write(p []byte) (int, error)       { return 0, nil }
func (writerT) WriteString(s string) (int, error) { return 0, nil }

func c_two() (string, int) { return "", 0 }

func probeScope() {
}
`

// typesAllowedBy returns the types variable v may have according to the rule's filters (nil = unconstrained).
func typesAllowedBy(r *irRule, v string) ([]string, bool) {
	var out []string
	known := true
	for _, cj := range r.Where.conjuncts() {
		if cj.Value != v || len(cj.Args) != 1 {
			continue
		}
		a := cj.Args[0].Value
		switch cj.Op {
		case "FilterVarTypeIsOp":
			switch a {
			case "[]$_":
				out = append(out, "[]int", "[]string")
			case "string", "[]byte", "*regexp.Regexp", "[]int", "[]float64", "[]string", "error", "int", "*sync.Map", "sync.Map", "time.Time", "*time.Time":
				out = append(out, a)
			default:
				known = false
			}
		case "FilterVarTypeUnderlyingIsOp":
			switch a {
			case "string":
				out = append(out, "string", "DString")
			case "[]byte":
				out = append(out, "[]byte", "DBytes")
			case "[]int":
				out = append(out, "[]int", "DInts")
			default:
				known = false
			}
		case "FilterVarTypeImplementsOp":
			switch a {
			case "fmt.Stringer":
				out = append(out, "stringerT")
			case "io.Writer", "io.StringWriter":
				out = append(out, "writerT", "*bytes.Buffer")
			case "error":
				out = append(out, "error")
			default:
				known = false
			}
		}
	}
	return out, known
}

// `$a, $b := ...` / `$tmp := ...` at the start of a statement of a pattern
var declVarRe = regexp.MustCompile(`(?:^|[;{]\s*)((?:\$[A-Za-z_][A-Za-z0-9_]*\s*,\s*)*\$[A-Za-z_][A-Za-z0-9_]*)\s*:=`)

var qualRe = regexp.MustCompile(`(^|[^A-Za-z0-9_.$])([a-z][A-Za-z0-9_]*)\.[A-Z]`)

// name -> import path of the packages the probe prelude imports (the packages rule fixes refer to)
var c09PreludeImports = map[string]string{"bytes": "bytes", "context": "context", "errors": "errors", "fmt": "fmt", "io": "io", "http": "net/http", "httptest": "net/http/httptest",
	"os": "os", "filepath": "path/filepath", "reflect": "reflect", "regexp": "regexp", "sort": "sort", "strings": "strings", "sync": "sync", "time": "time", "utf8": "unicode/utf8"}

type c09Checker struct {
	fset *token.FileSet
	pkg  *types.Package
	pos  token.Pos
	err  error
}

// varName: the probe package declares one variable per candidate type; pattern variables of that type are replaced by it
func c09VarName(t string) string {
	if t == c09Tuple {
		return "c_two()"
	}
	return "c_" + sanitize(t)
}

func newC09Checker(allTypes []string) *c09Checker {
	cc := &c09Checker{fset: token.NewFileSet()}
	var sb strings.Builder
	sb.WriteString(c09Prelude)
	seen := map[string]bool{}
	for _, t := range allTypes {
		if !seen[t] && t != c09Tuple {
			seen[t] = true
			fmt.Fprintf(&sb, "var %s %s\n", c09VarName(t), t)
			fmt.Fprintf(&sb, "var p_%s *%s\n", sanitize(t), t)
		}
	}
	f, err := parser.ParseFile(cc.fset, "probe.go", sb.String(), 0)
	if err != nil {
		cc.err = err
		return cc
	}
	conf := types.Config{Importer: importer.ForCompiler(cc.fset, "source", nil)}
	cc.pkg, cc.err = conf.Check("p", cc.fset, []*ast.File{f}, nil)
	// expressions are evaluated inside the file (imports are file-scoped): at the end of the body of probeScope
	ast.Inspect(f, func(n ast.Node) bool {
		if fd, ok := n.(*ast.FuncDecl); ok && fd.Name.Name == "probeScope" {
			cc.pos = fd.Body.Rbrace
		}
		return true
	})
	return cc
}

func c09Subst(tmpl string, tv map[string]string) string {
	return patVarRe.ReplaceAllStringFunc(strings.ReplaceAll(tmpl, "$$", "v___"), func(m string) string {
		name := strings.TrimPrefix(strings.TrimPrefix(m, "$"), "*")
		if t, ok := tv[name]; ok {
			return c09VarName(t)
		}
		return "v_" + name
	})
}

// check type-checks pattern and suggestion as expressions under the variable typing tv (types.Eval in the scope of the
// probe package); returns (patternOK, suggestionOK, sameType, message).
func (cc *c09Checker) check(pat, sug string, vars []string, tv map[string]string) (bool, bool, bool, string) {
	pt, err := types.Eval(cc.fset, cc.pkg, cc.pos, c09Subst(pat, tv))
	if err != nil || pt.Type == nil {
		return false, false, false, ""
	}
	st, err := types.Eval(cc.fset, cc.pkg, cc.pos, c09Subst(sug, tv))
	if err != nil {
		return true, false, false, err.Error()
	}
	if st.Type == nil {
		return true, false, false, "the fix has no value"
	}
	a, b := types.Default(pt.Type), types.Default(st.Type)
	if !types.Identical(a, b) {
		return true, true, false, fmt.Sprintf("the pattern has type %s, the suggestion %s", a, b)
	}
	return true, true, true, ""
}

// c09SubstText is c09Subst with the source text of some variables given explicitly.
func c09SubstText(tmpl string, tv map[string]string, text map[string]string) string {
	return patVarRe.ReplaceAllStringFunc(strings.ReplaceAll(tmpl, "$$", "v___"), func(m string) string {
		name := strings.TrimPrefix(strings.TrimPrefix(m, "$"), "*")
		if t, ok := text[name]; ok {
			return t
		}
		if t, ok := tv[name]; ok {
			return c09VarName(t)
		}
		return "v_" + name
	})
}

// exprShape serialises the syntax tree of an expression, ignoring parentheses: two texts with the same shape group
// their operands the same way.
func exprShape(src string) (string, bool) {
	e, err := parser.ParseExpr(src)
	if err != nil {
		return "", false
	}
	var sb strings.Builder
	ast.Inspect(e, func(n ast.Node) bool {
		switch n := n.(type) {
		case nil:
			sb.WriteString(")")
			return true
		case *ast.ParenExpr:
			sb.WriteString("(") // balanced by the closing mark; carries no label, so it is removed below
			sb.WriteString("P")
			return true
		case *ast.Ident:
			sb.WriteString("(I:" + n.Name)
		case *ast.BasicLit:
			sb.WriteString("(L:" + n.Value)
		case *ast.BinaryExpr:
			sb.WriteString("(B:" + n.Op.String())
		case *ast.UnaryExpr:
			sb.WriteString("(U:" + n.Op.String())
		default:
			sb.WriteString(fmt.Sprintf("(%T", n))
		}
		return true
	})
	out := sb.String()
	// remove parenthesis nodes: "(P" X ")" -> X
	for {
		i := strings.Index(out, "(P")
		if i < 0 {
			break
		}
		depth := 0
		j := i
		for ; j < len(out); j++ {
			if out[j] == '(' {
				depth++
			} else if out[j] == ')' {
				depth--
				if depth == 0 {
					break
				}
			}
		}
		out = out[:i] + out[i+2:j] + out[j+1:]
	}
	return out, true
}

type c09Witness struct {
	kind string // ast node kind of the witness
	text string
}

// compound operands of type t: well-typed expressions that are not primary expressions
func c09Witnesses(t string) []c09Witness {
	if t == c09Tuple {
		return nil
	}
	ws := []c09Witness{{"StarExpr", "*p_" + sanitize(t)}}
	switch t {
	case "string", "DString", "int", "rune":
		ws = append(ws, c09Witness{"BinaryExpr", c09VarName(t) + " + " + c09VarName(t)})
	}
	switch t {
	case "int", "rune":
		ws = append(ws, c09Witness{"UnaryExpr", "-" + c09VarName(t)})
	}
	return ws
}

// nodeKindAllowed: do the rule's filters let variable v be matched by a node of this kind?
func nodeKindAllowed(r *irRule, v, kind string) bool {
	isKind := func(f *irFilter) (string, bool) {
		if f.Op == "FilterVarNodeIsOp" && f.Value == v && len(f.Args) == 1 {
			return f.Args[0].Value, true
		}
		return "", false
	}
	for _, cj := range r.Where.conjuncts() {
		if k, ok := isKind(cj); ok && k != kind && k != "Expr" {
			return false
		}
		if cj.Op == "FilterNotOp" && len(cj.Args) == 1 {
			if k, ok := isKind(cj.Args[0]); ok && (k == kind || k == "Expr") {
				return false
			}
		}
		if cj.Op == "FilterOrOp" {
			all, any := true, false
			for _, a := range cj.Args {
				k, ok := isKind(a)
				if !ok {
					all = false
				} else if k == kind || k == "Expr" {
					any = true
				}
			}
			if all && !any {
				return false
			}
		}
	}
	return true
}

// parentKindExcluded: the rule does not fire when the matched node's parent is of this kind
func parentKindExcluded(r *irRule, kind string) bool {
	for _, cj := range r.Where.conjuncts() {
		if cj.Op == "FilterNotOp" && len(cj.Args) == 1 && cj.Args[0].Op == "FilterRootNodeParentIsOp" && len(cj.Args[0].Args) == 1 && cj.Args[0].Args[0].Value == kind {
			return true
		}
	}
	return false
}

// parentKindRequired: the rule fires only under parents of the listed kinds (a disjunction of Parent().Is filters)
func parentKindsRequired(r *irRule) map[string]bool {
	for _, cj := range r.Where.conjuncts() {
		fs := []*irFilter{cj}
		if cj.Op == "FilterOrOp" {
			fs = cj.Args
		}
		kinds := map[string]bool{}
		for _, f := range fs {
			if f.Op == "FilterRootNodeParentIsOp" && len(f.Args) == 1 {
				kinds[f.Args[0].Value] = true
			} else {
				kinds = nil
				break
			}
		}
		if len(kinds) > 0 {
			return kinds
		}
	}
	return nil
}

// contexts in which a matched expression can stand and that bind tighter than some operators
var c09Contexts = []struct{ parent, tmpl string }{
	{"IndexExpr", "%s[0]"},
	{"SliceExpr", "%s[1:]"},
	{"SelectorExpr", "%s.String()"},
	{"SelectorExpr", "%s.Error()"},
	{"UnaryExpr", "-%s"},
	{"UnaryExpr", "!%s"},
	{"StarExpr", "*%s"},
	{"BinaryExpr", "%s * 2"},
	{"BinaryExpr", "2 * %s"},
	{"BinaryExpr", "2 - %s"},
	{"BinaryExpr", "true && %s"},
	{"BinaryExpr", "true == %s"},
	{"TypeAssertExpr", "%s.(fmt.Stringer)"},
}

func substVars(tmpl string) string {
	return patVarRe.ReplaceAllStringFunc(strings.ReplaceAll(tmpl, "$$", "v___"), func(m string) string {
		name := strings.TrimPrefix(strings.TrimPrefix(m, "$"), "*")
		if strings.HasPrefix(m, "$*") {
			return "v_" + name + "..."
		}
		return "v_" + name
	})
}

func parsesAs(tmpl string) string {
	src := substVars(tmpl)
	src = strings.ReplaceAll(src, "...)", ")") // variadic wildcard in argument position
	if _, err := parser.ParseExpr(src); err == nil {
		return "expr"
	}
	if _, err := parser.ParseFile(token.NewFileSet(), "t.go", "package p\nfunc f() {\n"+src+"\n}\n", 0); err == nil {
		return "stmt"
	}
	return ""
}

func init() {
	registerHook("C09", func(c *checkCtx) {
		groups, ok := c.ruleData()
		if !ok {
			return
		}
		all := append([]string{}, c09Candidates...)
		all = append(all, "DString", "DBytes", "DInts", "stringerT", "writerT", "*sync.Map", "sync.Map", "*time.Time")
		cc := newC09Checker(all)
		if cc.err != nil {
			c.direct = append(c.direct, &directResult{Name: "rules/type-probe-package-builds", OK: false, Detail: cc.err.Error()})
			return
		}
		nfix, ntyped, nbounded := 0, 0, 0
		var skipped []string
		for _, g := range groups {
			for i, r := range g.Rules {
				base := fmt.Sprintf("rules/%s/rule#%d", g.Name, i+1)
				// (0) templates refer to captured lists as $name: `$*name` is pattern syntax and is copied verbatim into fix and message
				for what, tmpl := range map[string]string{"fix": r.Suggest, "message": r.Report} {
					if tmpl == "" {
						continue
					}
					c.direct = append(c.direct, &directResult{Name: fmt.Sprintf("%s/%s-template-has-no-pattern-only-syntax", base, what), OK: !strings.Contains(tmpl, "$*"),
						Detail: fmt.Sprintf("the %s template %q contains `$*`: the rule engine expands `$name` only, so the text `$*name` would appear verbatim in the %s", what, tmpl, what)})
				}
				if r.Suggest == "" {
					continue
				}
				nfix++
				sc := parsesAs(r.Suggest)
				c.direct = append(c.direct, &directResult{Name: base + "/suggestion-is-go", OK: sc != "", Detail: fmt.Sprintf("the fix text %q does not parse as a Go expression or statement list (placeholders are not Go)", r.Suggest)})
				// (6) the fix names only packages the file is known to import: packages the pattern names, or packages
				// the rule requires the file to import
				for _, q := range qualRe.FindAllStringSubmatch(r.Suggest, -1) {
					path, isStd := c09PreludeImports[q[2]]
					if !isStd {
						continue
					}
					inAll := true
					for _, pat := range r.Patterns {
						found := false
						for _, pq := range qualRe.FindAllStringSubmatch(pat, -1) {
							if pq[2] == q[2] {
								found = true
							}
						}
						if !found {
							inAll = false
						}
					}
					required := false
					for _, cj := range r.Where.conjuncts() {
						if cj.Op == "FilterFileImportsOp" && cj.Value == path {
							required = true
						}
					}
					c.direct = append(c.direct, &directResult{Name: fmt.Sprintf("%s/fix-uses-package-%s-only-where-it-is-imported", base, q[2]), OK: inAll || required,
						Detail: fmt.Sprintf("the fix %q refers to package %s, which the matched code does not mention and the rule does not require the file to import (m.File().Imports(%q)): applied to a file without that import the fix leaves an undefined identifier", r.Suggest, q[2], path)})
				}
				for j, pat := range r.Patterns {
					pn := fmt.Sprintf("%s/pattern#%d", base, j+1)
					pc := parsesAs(pat)
					if sc != "" {
						sameCat := pc == sc
						if pc == "stmt" && sc == "expr" {
							// a call is a statement as well
							if e, err := parser.ParseExpr(strings.ReplaceAll(substVars(r.Suggest), "...)", ")")); err == nil {
								_, sameCat = e.(*ast.CallExpr)
							}
						}
						c.direct = append(c.direct, &directResult{Name: pn + "/same-syntactic-category", OK: sameCat, Detail: fmt.Sprintf("pattern %q is a %s, the fix %q a %s", pat, pc, r.Suggest, sc)})
					}
					// (2) nothing inside the matched range is dropped
					dropped := ""
					for _, m := range patVarRe.FindAllString(pat, -1) {
						if strings.HasPrefix(m, "$*") {
							name := strings.TrimPrefix(m, "$*")
							if name == "_" || !(strings.Contains(r.Suggest, "$"+name) || strings.Contains(r.Suggest, "$*"+name)) {
								dropped = m
							}
						}
					}
					c.direct = append(c.direct, &directResult{Name: pn + "/fix-keeps-everything-the-wildcards-matched", OK: dropped == "",
						Detail: fmt.Sprintf("pattern %q matches arbitrary code with %s, the fix %q replaces the whole matched range and does not reproduce it: that code is deleted", pat, dropped, r.Suggest)})
					// (2b) a variable declared by the matched statements is still declared after the fix: later code may use it
					lostDecl := ""
					for _, m := range declVarRe.FindAllStringSubmatch(pat, -1) {
						for _, v := range patVarRe.FindAllStringSubmatch(m[1], -1) {
							if v[1] == "_" {
								continue
							}
							re := regexp.MustCompile(`(\$` + v[1] + `\b[^;{}]*:=)|(var\s+\$` + v[1] + `\b)`)
							if !re.MatchString(r.Suggest) {
								lostDecl = "$" + v[1]
							}
						}
					}
					if pc == "stmt" {
						c.direct = append(c.direct, &directResult{Name: pn + "/fix-keeps-the-declarations-of-the-matched-statements", OK: lostDecl == "",
							Detail: fmt.Sprintf("pattern %q declares %s, the fix %q replaces the whole matched range and does not declare it: code after the match that uses the variable no longer compiles", pat, lostDecl, r.Suggest)})
					}
					// (3) type preservation for expression rules
					if pc != "expr" || sc != "expr" || strings.Contains(pat, "$*") {
						skipped = append(skipped, pn)
						continue
					}
					vars := uniq(varOccurrences(pat))
					for _, v := range varOccurrences(r.Suggest) {
						found := false
						for _, w := range vars {
							if w == v {
								found = true
							}
						}
						if !found {
							vars = append(vars, v)
						}
					}
					dom := map[string][]string{}
					bounded := false
					okDom := true
					for _, v := range vars {
						ts, known := typesAllowedBy(r, v)
						if !known {
							okDom = false
						}
						if len(ts) == 0 {
							ts = c09Candidates
							bounded = true
						}
						dom[v] = ts
					}
					if !okDom || len(vars) > 4 {
						skipped = append(skipped, pn)
						continue
					}
					ps, ss := pat, r.Suggest
					anyTyping := false
					bad := ""
					badGroup, badCtx := "", ""
					evalType := func(src string) (types.Type, error) {
						tv, err := types.Eval(cc.fset, cc.pkg, cc.pos, src)
						if err != nil {
							return nil, err
						}
						if tv.Type == nil {
							return nil, fmt.Errorf("no value")
						}
						return types.Default(tv.Type), nil
					}
					// (4) a compound operand keeps its grouping when it is copied into the fix
					grouping := func(tv map[string]string) {
						for _, v := range vars {
							for _, w := range c09Witnesses(tv[v]) {
								if badGroup != "" || !nodeKindAllowed(r, v, w.kind) {
									continue
								}
								pw := c09SubstText(ps, tv, map[string]string{v: w.text})
								pp := c09SubstText(ps, tv, map[string]string{v: "(" + w.text + ")"})
								s1, ok1 := exprShape(pw)
								s2, ok2 := exprShape(pp)
								if !ok1 || !ok2 || s1 != s2 {
									continue // the pattern would not bind the whole witness to $v
								}
								if _, err := evalType(pw); err != nil {
									continue
								}
								sw := c09SubstText(ss, tv, map[string]string{v: w.text})
								sp := c09SubstText(ss, tv, map[string]string{v: "(" + w.text + ")"})
								t1, ok1 := exprShape(sw)
								t2, ok2 := exprShape(sp)
								if !ok1 || !ok2 || t1 == t2 {
									continue
								}
								want, err := evalType(sp)
								if err != nil {
									continue
								}
								got, err := evalType(sw)
								if err != nil {
									badGroup = fmt.Sprintf("with $%s = `%s` (a %s of type %s) the pattern matches `%s`, and the fix `%s` regroups the operand and no longer type-checks: %v", v, w.text, w.kind, tv[v], pw, sw, err)
								} else if !types.Identical(got, want) {
									badGroup = fmt.Sprintf("with $%s = `%s` (a %s of type %s) the fix `%s` regroups the operand and has type %s instead of %s", v, w.text, w.kind, tv[v], sw, got, want)
								}
							}
						}
					}
					// (5) the fix can stand wherever the matched expression stood
					req := parentKindsRequired(r)
					context := func(tv map[string]string) {
						p0 := c09SubstText(ps, tv, nil)
						s0 := c09SubstText(ss, tv, nil)
						for _, cx := range c09Contexts {
							if badCtx != "" || parentKindExcluded(r, cx.parent) || (req != nil && !req[cx.parent]) {
								continue
							}
							if _, err := evalType(fmt.Sprintf(cx.tmpl, p0)); err != nil {
								continue // the matched expression cannot stand in this context
							}
							sw := fmt.Sprintf(cx.tmpl, s0)
							sp := fmt.Sprintf(cx.tmpl, "("+s0+")")
							t1, ok1 := exprShape(sw)
							t2, ok2 := exprShape(sp)
							if !ok1 || !ok2 || t1 == t2 {
								continue
							}
							want, err := evalType(sp)
							if err != nil {
								continue
							}
							got, err := evalType(sw)
							if err != nil {
								badCtx = fmt.Sprintf("`%s` is valid Go; replacing the matched call by the fix text gives `%s`, which regroups and does not type-check: %v (the rule does not exclude a parent of kind %s)", fmt.Sprintf(cx.tmpl, p0), sw, err, cx.parent)
							} else if !types.Identical(got, want) {
								badCtx = fmt.Sprintf("`%s` is valid Go; replacing the matched call by the fix text gives `%s` of type %s instead of %s (the rule does not exclude a parent of kind %s)", fmt.Sprintf(cx.tmpl, p0), sw, got, want, cx.parent)
							}
						}
					}
					var rec func(k int, tv map[string]string)
					rec = func(k int, tv map[string]string) {
						if bad != "" {
							return
						}
						if k == len(vars) {
							pOK, sOK, same, msg := cc.check(ps, ss, vars, tv)
							if !pOK {
								return
							}
							anyTyping = true
							if sOK && same {
								grouping(tv)
								context(tv)
							}
							if !sOK || !same {
								var parts []string
								for _, v := range vars {
									parts = append(parts, "$"+v+" "+tv[v])
								}
								bad = fmt.Sprintf("with %s the pattern type-checks but the fix does not keep its type: %s", strings.Join(parts, ", "), msg)
							}
							return
						}
						for _, t := range dom[vars[k]] {
							tv[vars[k]] = t
							rec(k+1, tv)
						}
					}
					rec(0, map[string]string{})
					if !anyTyping {
						skipped = append(skipped, pn)
						continue
					}
					ntyped++
					if bounded {
						nbounded++
					}
					c.direct = append(c.direct, &directResult{Name: pn + "/fix-type-checks-and-keeps-the-type", OK: bad == "", Detail: fmt.Sprintf("pattern %q, fix %q: %s", pat, r.Suggest, bad)})
					c.direct = append(c.direct, &directResult{Name: pn + "/compound-operands-keep-their-grouping-in-the-fix", OK: badGroup == "", Detail: fmt.Sprintf("pattern %q, fix %q: %s", pat, r.Suggest, badGroup)})
					c.direct = append(c.direct, &directResult{Name: pn + "/fix-can-stand-where-the-match-stood", OK: badCtx == "", Detail: fmt.Sprintf("pattern %q, fix %q: %s", pat, r.Suggest, badCtx)})
				}
			}
		}
		sort.Strings(skipped)
		c.extraEv["rules_with_machine_applicable_fix"] = nfix
		c.extraEv["patterns_type_checked"] = ntyped
		c.extraEv["patterns_type_checked_over_the_candidate_list_only(bounded)"] = nbounded
		c.extraEv["patterns_not_type_checked"] = skipped
		c.extraEv["decided_by_types"] = "go/types on synthesized probes (type preservation); syntactic decisions on the templates; no SMT solver"
		c.assumed["rule engine: the QuickFix replaces exactly the source range of the matched node(s) with the expanded Suggest template (ruleguard, dependency)"] = true
		c.assumed["type filters restrict a pattern variable exactly as documented by ruleguard (Type.Is: identical type, Underlying().Is: identical underlying type, Implements: method set)"] = true
	})
}

func uniq(xs []string) []string {
	seen := map[string]bool{}
	var out []string
	for _, x := range xs {
		if !seen[x] {
			seen[x] = true
			out = append(out, x)
		}
	}
	return out
}
