package main

import (
	"strings"

	"golang.org/x/tools/go/ssa"
)

// C08 (4) registry completeness: the analyzer's snapshot of the registry must include the rule-based checkers.
// Protocol obligation (decided syntactically over the SSA of the current tree): the value stored into
// analyzer.registeredCheckers comes from linter.GetCheckersInfo() evaluated after checkers.InitEmbeddedRules()
// has run - either the package initializer calls InitEmbeddedRules first, or the snapshot is taken lazily by
// newGocritic / prepareGocritic (which run after main had the chance to register the embedded rules) -
// and every analysis front-end main calls InitEmbeddedRules when the snapshot is lazy.
func init() {
	registerHook("C08", func(c *checkCtx) {
		initFn := c.e.funcs["checkers/analyzer.init"]
		callsBefore := func(fn *ssa.Function, callee string, beforeStoreTo string) (called bool, stored bool) {
			if fn == nil {
				return false, false
			}
			for _, b := range fn.Blocks {
				for _, ins := range b.Instrs {
					if call, ok := ins.(ssa.CallInstruction); ok {
						if f := call.Common().StaticCallee(); f != nil && strings.HasSuffix(funcKey(f), callee) {
							if !stored {
								called = true
							}
						}
					}
					if st, ok := ins.(*ssa.Store); ok {
						if g, ok := st.Addr.(*ssa.Global); ok && g.Name() == beforeStoreTo {
							stored = true
						}
					}
				}
			}
			return
		}
		eager, storedInInit := callsBefore(initFn, "checkers.InitEmbeddedRules", "registeredCheckers")
		lazy := false
		for _, k := range []string{"checkers/analyzer.newGocritic", "checkers/analyzer.prepareGocritic"} {
			if fn := c.e.funcs[k]; fn != nil {
				for _, b := range fn.Blocks {
					for _, ins := range b.Instrs {
						if call, ok := ins.(ssa.CallInstruction); ok {
							if f := call.Common().StaticCallee(); f != nil && strings.HasSuffix(funcKey(f), "linter.GetCheckersInfo") {
								lazy = true
							}
						}
					}
				}
			}
		}
		ok := (storedInInit && eager) || lazy
		detail := "analyzer.registeredCheckers is assigned linter.GetCheckersInfo() by the package initializer, which runs before any main; " +
			"checkers.InitEmbeddedRules() is not called before that store and the snapshot is not refreshed later, so the analyzer offers only the hand-written checkers " +
			"(67) while the command-line front-end offers the rule-based ones as well (107).\n" +
			"witness: go-critic-analysis vs go-critic on a file containing `len(xs) >= 0` (sloppyLen is reported by the CLI only)."
		c.direct = append(c.direct, &directResult{Name: "checkers/analyzer.init/protocol/registry-snapshot-includes-embedded-rules", OK: ok, Detail: detail})
	})
}
