package main

import (
	"os"
	"path/filepath"
	"strings"

	"golang.org/x/tools/go/ssa"
)

// C08 (4) registry completeness: the analyzer's snapshot of the registry must include the rule-based checkers.
// Protocol obligation (decided syntactically over the SSA of the current tree): the value stored into
// analyzer.registeredCheckers comes from linter.GetCheckersInfo() evaluated after checkers.InitEmbeddedRules()
// has run - either the package initializer calls InitEmbeddedRules first, or the snapshot is taken lazily by
// newGocritic / prepareGocritic (which run after main had the chance to register the embedded rules) -
// and every analysis front-end main calls InitEmbeddedRules when the snapshot is lazy.
func init() {
	registerHook("C08", func(c *checkCtx) {
		initFn := c.e.funcs["checkers/analyzer.init"]
		callsBefore := func(fn *ssa.Function, callee string, beforeStoreTo string) (called bool, stored bool) {
			if fn == nil {
				return false, false
			}
			for _, b := range fn.Blocks {
				for _, ins := range b.Instrs {
					if call, ok := ins.(ssa.CallInstruction); ok {
						if f := call.Common().StaticCallee(); f != nil && strings.HasSuffix(funcKey(f), callee) {
							if !stored {
								called = true
							}
						}
					}
					if st, ok := ins.(*ssa.Store); ok {
						if g, ok := st.Addr.(*ssa.Global); ok && g.Name() == beforeStoreTo {
							stored = true
						}
					}
				}
			}
			return
		}
		eager, storedInInit := callsBefore(initFn, "checkers.InitEmbeddedRules", "registeredCheckers")
		lazy := false
		for _, k := range []string{"checkers/analyzer.newGocritic", "checkers/analyzer.prepareGocritic"} {
			if fn := c.e.funcs[k]; fn != nil {
				for _, b := range fn.Blocks {
					for _, ins := range b.Instrs {
						if call, ok := ins.(ssa.CallInstruction); ok {
							if f := call.Common().StaticCallee(); f != nil && strings.HasSuffix(funcKey(f), "linter.GetCheckersInfo") {
								lazy = true
							}
						}
					}
				}
			}
		}
		ok := (storedInInit && eager) || lazy
		detail := "analyzer.registeredCheckers is assigned linter.GetCheckersInfo() by the package initializer, which runs before any main; " +
			"checkers.InitEmbeddedRules() is not called before that store and the snapshot is not refreshed later, so the analyzer offers only the hand-written checkers " +
			"(67) while the command-line front-end offers the rule-based ones as well (107).\n" +
			"witness: go-critic-analysis vs go-critic on a file containing `len(xs) >= 0` (sloppyLen is reported by the CLI only)."
		c.direct = append(c.direct, &directResult{Name: "checkers/analyzer.init/protocol/registry-snapshot-includes-embedded-rules", OK: ok, Detail: detail})
	})
}

// C08 (5) the twin commands: cmd/go-critic and cmd/gocritic are kept as byte-identical copies; as long as they are, the two
// commands are the same program (same diagnostics, same exit status, same filters). Decided by comparing the files.
func init() {
	registerHook("C08", func(c *checkCtx) {
		a, b := filepath.Join(c.e.repo, "cmd", "go-critic"), filepath.Join(c.e.repo, "cmd", "gocritic")
		ents, err := os.ReadDir(a)
		if err != nil {
			c.direct = append(c.direct, &directResult{Name: "cmd/twins/readable", OK: false, Detail: err.Error()})
			return
		}
		n := 0
		for _, e := range ents {
			if e.IsDir() || !strings.HasSuffix(e.Name(), ".go") || strings.HasSuffix(e.Name(), "_test.go") {
				continue
			}
			x, err1 := os.ReadFile(filepath.Join(a, e.Name()))
			y, err2 := os.ReadFile(filepath.Join(b, e.Name()))
			n++
			ok := err1 == nil && err2 == nil && string(x) == string(y)
			c.direct = append(c.direct, &directResult{Name: "cmd/twins/" + e.Name() + "/go-critic-and-gocritic-are-the-same-program", OK: ok,
				Detail: "cmd/go-critic/" + e.Name() + " and cmd/gocritic/" + e.Name() + " differ (or one of them is missing): the two commands are no longer the same program"})
		}
		ents2, _ := os.ReadDir(b)
		for _, e := range ents2 {
			if e.IsDir() || !strings.HasSuffix(e.Name(), ".go") || strings.HasSuffix(e.Name(), "_test.go") {
				continue
			}
			if _, err := os.Stat(filepath.Join(a, e.Name())); err != nil {
				c.direct = append(c.direct, &directResult{Name: "cmd/twins/" + e.Name() + "/go-critic-and-gocritic-are-the-same-program", OK: false, Detail: "cmd/gocritic/" + e.Name() + " has no counterpart in cmd/go-critic"})
			}
		}
		c.extraEv["twin_files_compared"] = n
	})
}
