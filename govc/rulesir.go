package main

import (
	"fmt"
	"go/ast"
	"go/parser"
	"go/token"
	"os"
	"path/filepath"
	"regexp"
	"runtime"
	"sort"
	"strconv"
	"strings"
)

// Reader for the precompiled rule data (checkers/rulesdata/rulesdata.go): the file is a single composite literal of
// ir.File; it is parsed with go/parser and turned into the small tree below. Nothing is executed. The rule-level
// obligations of C09/C10/C12/C15/C20 are decided on this tree (generator-decided, no solver).

type irFilter struct {
	Line  int
	Op    string // FilterAndOp, FilterVarPureOp, ...
	Src   string
	Value string
	Args  []*irFilter
}

type irRule struct {
	Line        int
	Patterns    []string
	Report      string
	Suggest     string
	LocationVar string
	Where       *irFilter
}

type irGroup struct {
	Line    int
	Name    string
	Tags    []string
	Imports map[string]string // name -> path (m.Import in the rule source)
	Rules   []*irRule
}

func litString(e ast.Expr) string {
	if bl, ok := e.(*ast.BasicLit); ok && bl.Kind == token.STRING {
		s, _ := strconv.Unquote(bl.Value)
		return s
	}
	return ""
}

func litInt(e ast.Expr) int {
	if bl, ok := e.(*ast.BasicLit); ok && bl.Kind == token.INT {
		n, _ := strconv.Atoi(bl.Value)
		return n
	}
	return 0
}

func kvs(cl *ast.CompositeLit) map[string]ast.Expr {
	out := map[string]ast.Expr{}
	for _, el := range cl.Elts {
		if kv, ok := el.(*ast.KeyValueExpr); ok {
			if k, ok := kv.Key.(*ast.Ident); ok {
				out[k.Name] = kv.Value
			}
		}
	}
	return out
}

func elts(e ast.Expr) []*ast.CompositeLit {
	cl, ok := e.(*ast.CompositeLit)
	if !ok {
		return nil
	}
	var out []*ast.CompositeLit
	for _, el := range cl.Elts {
		if c, ok := el.(*ast.CompositeLit); ok {
			out = append(out, c)
		}
	}
	return out
}

func readFilter(cl *ast.CompositeLit) *irFilter {
	m := kvs(cl)
	f := &irFilter{Line: litInt(m["Line"]), Src: litString(m["Src"]), Value: litString(m["Value"])}
	if v, ok := m["Value"].(*ast.BasicLit); ok && v.Kind == token.INT {
		f.Value = v.Value
	}
	if sel, ok := m["Op"].(*ast.SelectorExpr); ok {
		f.Op = sel.Sel.Name
	}
	if a, ok := m["Args"]; ok {
		for _, c := range elts(a) {
			f.Args = append(f.Args, readFilter(c))
		}
	}
	return f
}

func readRuleData(repo string) ([]*irGroup, error) {
	path := filepath.Join(repo, "checkers", "rulesdata", "rulesdata.go")
	fset := token.NewFileSet()
	f, err := parser.ParseFile(fset, path, nil, 0)
	if err != nil {
		return nil, err
	}
	var file *ast.CompositeLit
	ast.Inspect(f, func(n ast.Node) bool {
		if file != nil {
			return false
		}
		if cl, ok := n.(*ast.CompositeLit); ok {
			if _, has := kvs(cl)["RuleGroups"]; has {
				file = cl
				return false
			}
		}
		return true
	})
	if file == nil {
		return nil, fmt.Errorf("%s: no ir.File literal with RuleGroups found", path)
	}
	var out []*irGroup
	for _, gcl := range elts(kvs(file)["RuleGroups"]) {
		gm := kvs(gcl)
		g := &irGroup{Line: litInt(gm["Line"]), Name: litString(gm["Name"]), Imports: map[string]string{}}
		for _, icl := range elts(gm["Imports"]) {
			im := kvs(icl)
			g.Imports[litString(im["Name"])] = litString(im["Path"])
		}
		if t, ok := gm["DocTags"].(*ast.CompositeLit); ok {
			for _, e := range t.Elts {
				g.Tags = append(g.Tags, litString(e))
			}
		}
		for _, rcl := range elts(gm["Rules"]) {
			rm := kvs(rcl)
			r := &irRule{Line: litInt(rm["Line"]), Report: litString(rm["ReportTemplate"]), Suggest: litString(rm["SuggestTemplate"]), LocationVar: litString(rm["LocationVar"])}
			for _, p := range elts(rm["SyntaxPatterns"]) {
				r.Patterns = append(r.Patterns, litString(kvs(p)["Value"]))
			}
			if w, ok := rm["WhereExpr"].(*ast.CompositeLit); ok {
				r.Where = readFilter(w)
			}
			g.Rules = append(g.Rules, r)
		}
		out = append(out, g)
	}
	return out, nil
}

// conjuncts returns the filters that must all hold for the rule to fire (top-level && chain).
func (f *irFilter) conjuncts() []*irFilter {
	if f == nil {
		return nil
	}
	if f.Op == "FilterAndOp" {
		var out []*irFilter
		for _, a := range f.Args {
			out = append(out, a.conjuncts()...)
		}
		return out
	}
	return []*irFilter{f}
}

// requires reports whether the rule fires only when filter op holds for variable v (as a top-level conjunct).
func (r *irRule) requires(op, v string) bool {
	for _, c := range r.Where.conjuncts() {
		if c.Op == op && c.Value == v {
			return true
		}
	}
	return false
}

var patVarRe = regexp.MustCompile(`\$\*?([A-Za-z_][A-Za-z0-9_]*)`)

// varOccurrences lists the named pattern variables of a template in order of appearance.
func varOccurrences(tmpl string) []string {
	var out []string
	for _, m := range patVarRe.FindAllStringSubmatch(strings.ReplaceAll(tmpl, "$$", ""), -1) {
		if m[1] != "_" {
			out = append(out, m[1])
		}
	}
	return out
}

// ---------------------------------------------------------------------------
// first-appearance versions of standard-library API (GOROOT/api/go1.N.txt)

type stdAPI struct {
	funcs   map[string]int            // "strings.Cut" -> minor version of first appearance (0 = go1)
	methods map[string]int            // "UnixMilli" -> smallest minor version in which any method of that name appeared
	pkgs    map[string]bool           // package names
	byName  map[string]map[string]int // func name -> pkg name -> version
}

var apiLineRe = regexp.MustCompile(`^pkg ([A-Za-z0-9_/.]+)(?: \([^)]*\))?, (func|method \([^)]*\)) ([A-Za-z0-9_]+)[\[(]`)

func loadStdAPI() (*stdAPI, error) {
	root := runtime.GOROOT()
	if r, err := filepath.EvalSymlinks(filepath.Join(root, "api")); err == nil {
		root = r
	} else {
		root = filepath.Join(root, "api")
	}
	files, _ := filepath.Glob(filepath.Join(root, "go1*.txt"))
	if len(files) == 0 {
		return nil, fmt.Errorf("no API files under %s", root)
	}
	type vf struct {
		minor int
		path  string
	}
	var vs []vf
	for _, p := range files {
		b := strings.TrimSuffix(filepath.Base(p), ".txt")
		minor := 0
		if b != "go1" {
			minor, _ = strconv.Atoi(strings.TrimPrefix(b, "go1."))
		}
		vs = append(vs, vf{minor, p})
	}
	sort.Slice(vs, func(i, j int) bool { return vs[i].minor < vs[j].minor })
	api := &stdAPI{funcs: map[string]int{}, methods: map[string]int{}, pkgs: map[string]bool{}, byName: map[string]map[string]int{}}
	for _, v := range vs {
		data, err := os.ReadFile(v.path)
		if err != nil {
			return nil, err
		}
		for _, line := range strings.Split(string(data), "\n") {
			m := apiLineRe.FindStringSubmatch(line)
			if m == nil {
				continue
			}
			pkg := m[1][strings.LastIndex(m[1], "/")+1:]
			api.pkgs[pkg] = true
			if m[2] == "func" {
				k := pkg + "." + m[3]
				if _, seen := api.funcs[k]; !seen {
					api.funcs[k] = v.minor
				}
			} else {
				if _, seen := api.methods[m[3]]; !seen {
					api.methods[m[3]] = v.minor
				}
			}
		}
	}
	return api, nil
}
