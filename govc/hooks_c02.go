package main

import (
	"fmt"
	"go/types"
	"sort"
	"strings"

	"golang.org/x/tools/go/ssa"
)

// C02 determinism (DESIGN §7 C02). In a sequential Go program the sources of non-determinism are map iteration
// order, scheduling, clocks/randomness and address formatting. The obligations, decided on the SSA of the current tree:
//
//	(1) one obligation per `range` over a map in the analysis code: the loop body must be insensitive to the order in
//	    which keys are produced - it emits no diagnostic and prints nothing, it only writes locations keyed by the
//	    iteration key / stores constants / counts, or it builds a list that is sorted before use (error messages included); an emission guarded by
//	    `value == <loop-invariant>` is accepted under the stated injectivity assumption (at most one key can match);
//	(2) deny list: no call to clocks, random sources or process identity from the analysis packages;
//	(3) no `go` statement in the analysis packages (concurrency lives in the CLI only, see C04).
//
// These are finite syntactic decisions of the generator (no solver); the evidence says so.

var c02Pkgs = []string{"checkers.", "checkers/internal/astwalk.", "checkers/internal/lintutil.", "linter.", "checkers/analyzer.", "cmd/go-critic.", "cmd/gocritic."}

var denyCallees = []string{"time.Now", "time.Since", "time.Until", "math/rand.", "math/rand/v2.", "crypto/rand.", "os.Getpid", "os.Getppid", "os.Hostname", "runtime.NumGoroutine"}

func (e *Engine) computeEmitters() map[*ssa.Function]bool {
	emit := map[*ssa.Function]bool{}
	isPrint := func(f *ssa.Function) bool {
		k := extKey(f)
		return strings.HasPrefix(k, "log.Print") || strings.HasPrefix(k, "fmt.Print") || strings.HasPrefix(k, "fmt.Fprint") || k == "log.Fatalf"
	}
	changed := true
	for changed {
		changed = false
		for _, key := range e.sortedFuncKeys() {
			fn := e.funcs[key]
			if emit[fn] {
				continue
			}
			for _, b := range fn.Blocks {
				for _, ins := range b.Instrs {
					call, ok := ins.(ssa.CallInstruction)
					if !ok {
						continue
					}
					callee := call.Common().StaticCallee()
					if callee == nil {
						if mc, ok := call.Common().Value.(*ssa.MakeClosure); ok {
							callee = mc.Fn.(*ssa.Function)
						}
					}
					if callee == nil {
						continue
					}
					if _, _, w := isWarnFunc(callee); w || isPrint(callee) || emit[callee] {
						if !emit[fn] {
							emit[fn] = true
							changed = true
						}
					}
				}
			}
		}
	}
	return emit
}

func init() {
	registerHook("C02", func(c *checkCtx) {
		e := c.e
		emit := e.computeEmitters()
		for k, ctr := range e.ctrs {
			if ctr.DynCallsPure {
				if f := e.funcs[k]; f != nil {
					pureDyn[f] = true
				}
			}
		}
		nranges := 0
		var assumedInj []string
		for _, key := range e.sortedFuncKeys() {
			in := false
			for _, p := range c02Pkgs {
				if strings.HasPrefix(key, p) {
					in = true
				}
			}
			if !in || strings.Contains(key, "linttest") {
				continue
			}
			fn := e.funcs[key]
			// (3) go statements in analysis packages
			if !strings.HasPrefix(key, "cmd/") {
				for _, b := range fn.Blocks {
					for _, ins := range b.Instrs {
						if _, isGo := ins.(*ssa.Go); isGo {
							c.direct = append(c.direct, &directResult{Name: key + "/no-goroutines-under-check", OK: false, Detail: "a go statement in the analysis code makes the order of effects depend on scheduling"})
						}
						if call, ok := ins.(ssa.CallInstruction); ok {
							if callee := call.Common().StaticCallee(); callee != nil {
								k := extKey(callee)
								for _, d := range denyCallees {
									if k == d || (strings.HasSuffix(d, ".") && strings.HasPrefix(k, d)) {
										c.direct = append(c.direct, &directResult{Name: key + "/deny/" + k, OK: false, Detail: "call of " + k + " from analysis code: the result of an analysis would depend on time, randomness or process identity"})
									}
								}
							}
						}
					}
				}
			}
			// (1) map ranges
			k := 0
			for _, b := range fn.Blocks {
				for _, ins := range b.Instrs {
					rng, ok := ins.(*ssa.Range)
					if !ok {
						continue
					}
					if _, isMap := rng.X.Type().Underlying().(*types.Map); !isMap {
						continue
					}
					k++
					nranges++
					name := fmt.Sprintf("%s/maprange#%d/order-independent", key, k)
					okRes, detail, inj := classifyMapRange(fn, rng, emit)
					if ctr := c.e.ctrs[key]; !okRes && ctr != nil && ctr.TotalOrder != "" && strings.Contains(detail, "sorts it with a custom comparison") && !strings.Contains(detail, ";") {
						// the only objection is the custom comparison, and the function's contract states why it is total
						okRes, detail = true, ""
						c.assumed["custom sort comparison in "+key+" is total on the sorted list: "+ctr.TotalOrder] = true
					}
					if inj != "" {
						assumedInj = append(assumedInj, name+": "+inj)
					}
					c.direct = append(c.direct, &directResult{Name: name, OK: okRes, Detail: detail})
				}
			}
		}
		c.direct = append(c.direct, &directResult{Name: "analysis-packages/no-clock-random-or-goroutine", OK: true, Detail: "scan completed"})
		sort.Strings(assumedInj)
		for _, a := range assumedInj {
			c.assumed["map range accepted under an injectivity assumption - "+a] = true
		}
		c.extraEv["map_ranges_checked"] = nranges
		c.extraEv["decided_by"] = "syntactic classification of loop bodies on the SSA (no solver)"
	})
}

// classifyMapRange decides order-independence of one range-over-map loop.
func classifyMapRange(fn *ssa.Function, rng *ssa.Range, emit map[*ssa.Function]bool) (bool, string, string) {
	// the loop: header = block of the Next instruction
	var next *ssa.Next
	for _, r := range *rng.Referrers() {
		if n, ok := r.(*ssa.Next); ok {
			next = n
		}
	}
	if next == nil {
		return true, "iterator never advanced", ""
	}
	header := next.Block()
	loop := map[*ssa.BasicBlock]bool{header: true}
	for _, p := range header.Preds {
		if header.Dominates(p) {
			stack := []*ssa.BasicBlock{p}
			for len(stack) > 0 {
				x := stack[len(stack)-1]
				stack = stack[:len(stack)-1]
				if loop[x] {
					continue
				}
				loop[x] = true
				stack = append(stack, x.Preds...)
			}
		}
	}
	// values derived from the iteration key/value
	derived := map[ssa.Value]bool{next: true}
	changed := true
	for changed {
		changed = false
		for b := range loop {
			for _, ins := range b.Instrs {
				v, ok := ins.(ssa.Value)
				if !ok || derived[v] {
					continue
				}
				for _, op := range ins.Operands(nil) {
					if *op != nil && derived[*op] {
						derived[v] = true
						changed = true
						break
					}
				}
			}
		}
	}
	var problems []string
	lists := 0
	guardedEmit := false
	for b := range loop {
		for _, ins := range b.Instrs {
			switch ins := ins.(type) {
			case ssa.CallInstruction:
				cc := ins.Common()
				if bi, ok := cc.Value.(*ssa.Builtin); ok {
					if bi.Name() == "append" {
						lists++
					}
					continue
				}
				callee := cc.StaticCallee()
				if callee == nil {
					if mc, ok := cc.Value.(*ssa.MakeClosure); ok {
						callee = mc.Fn.(*ssa.Function)
					}
				}
				if callee == nil {
					if cc.IsInvoke() {
						continue // interface methods of dependencies (types.Object.Name() ...): observers
					}
					if pureDyn[fn] {
						continue // the function's contract models its calls through function values as pure predicates
					}
					problems = append(problems, "call through a function value")
					continue
				}
				if why := orderSensitiveCall(fn, callee, cc, derived); why != "" {
					problems = append(problems, why)
				}
				_, _, w := isWarnFunc(callee)
				k := extKey(callee)
				if w || emit[callee] || strings.HasPrefix(k, "log.Print") || strings.HasPrefix(k, "fmt.Print") {
					// guarded by `value == invariant`?
					if guardedByValueEq(b, next, derived) {
						guardedEmit = true
					} else {
						problems = append(problems, "emits output ("+callee.Name()+") inside the loop")
					}
				}
			case *ssa.Return:
				for _, r := range ins.Results {
					if _, isC := r.(*ssa.Const); !isC && derived[r] {
						problems = append(problems, "returns a value that depends on which key came first")
					}
				}
			case *ssa.Store:
				if _, isC := ins.Val.(*ssa.Const); isC {
					continue
				}
				if derived[ins.Addr] {
					continue // location keyed by the iteration element
				}
				if rootIsAlloc(ins.Addr, 0) {
					continue // local variable or object allocated by this function (lists are checked through append)
				}
				problems = append(problems, "stores a key-dependent value into a location that is not keyed by the iteration element")
			}
		}
	}
	if lists > 0 {
		// only a total order on the elements removes the iteration order: sort.Strings / Ints / Float64s / slices.Sort order
		// equal elements indistinguishably; a custom comparison (sort.Slice, sort.Sort) leaves ties in map order unless it
		// is total on the elements, which is not decided here
		sorted, custom := false, ""
		for _, b := range fn.Blocks {
			for _, ins := range b.Instrs {
				if call, ok := ins.(ssa.CallInstruction); ok {
					if callee := call.Common().StaticCallee(); callee != nil {
						switch k := extKey(callee); {
						case k == "sort.Strings" || k == "sort.Ints" || k == "sort.Float64s" || k == "slices.Sort":
							sorted = true
						case strings.HasPrefix(k, "sort.") || strings.HasPrefix(k, "slices.Sort"):
							custom = k
						}
					}
				}
			}
		}
		if !sorted && custom != "" {
			problems = append(problems, "builds a list in iteration order and sorts it with a custom comparison ("+custom+"): elements that compare equal keep the map's iteration order")
		} else if !sorted {
			problems = append(problems, "builds a list in iteration order that is not sorted afterwards")
		}
	}
	if len(problems) > 0 {
		return false, strings.Join(problems, "; "), ""
	}
	if guardedEmit {
		return true, "", "the emission is guarded by equality of the iteration value with a loop-invariant value; map values are assumed pairwise distinct (at most one key matches)"
	}
	return true, "", ""
}

var pureDyn = map[*ssa.Function]bool{}

func rootIsAlloc(v ssa.Value, depth int) bool {
	if depth > 6 {
		return false
	}
	switch v := v.(type) {
	case *ssa.Alloc:
		return true
	case *ssa.FieldAddr:
		return rootIsAlloc(v.X, depth+1)
	case *ssa.IndexAddr:
		return rootIsAlloc(v.X, depth+1)
	}
	return false
}

// guardedByValueEq: block b is reached only through a branch on `value == x` / `x == value` with value from the iteration
func guardedByValueEq(b *ssa.BasicBlock, next *ssa.Next, derived map[ssa.Value]bool) bool {
	for cur := b; cur != nil && cur != next.Block(); cur = cur.Idom() {
		for _, p := range cur.Preds {
			if len(p.Instrs) == 0 {
				continue
			}
			if iff, ok := p.Instrs[len(p.Instrs)-1].(*ssa.If); ok {
				if bo, ok := iff.Cond.(*ssa.BinOp); ok && bo.Op.String() == "==" {
					isElem := func(v ssa.Value) bool {
						ex, ok := v.(*ssa.Extract)
						return ok && ex.Tuple == ssa.Value(next) && ex.Index >= 1
					}
					isInv := func(v ssa.Value) bool {
						_, isC := v.(*ssa.Const)
						return !isC && !derived[v]
					}
					if (isElem(bo.X) && isInv(bo.Y)) || (isElem(bo.Y) && isInv(bo.X)) {
						return true
					}
				}
			}
		}
	}
	return false
}

// onlyErrorPath: the list built in the loop only feeds an error message (fmt.Errorf / strings.Join into an error)
func onlyErrorPath(fn *ssa.Function, loop map[*ssa.BasicBlock]bool) bool {
	for _, b := range fn.Blocks {
		for _, ins := range b.Instrs {
			if call, ok := ins.(ssa.CallInstruction); ok {
				if callee := call.Common().StaticCallee(); callee != nil && extKey(callee) == "fmt.Errorf" {
					for _, p := range b.Preds {
						if loop[p] {
							return true
						}
					}
					if loop[b] {
						return true
					}
					// the error is built right after the loop exits
					for lb := range loop {
						for _, s := range lb.Succs {
							if s == b {
								return true
							}
						}
					}
				}
			}
		}
	}
	return false
}


// observer packages: their functions and methods do not change state that outlives the call
var c02PurePkgs = map[string]bool{"strings": true, "strconv": true, "sort": true, "path/filepath": true, "path": true, "unicode": true, "unicode/utf8": true,
	"go/types": true, "go/token": true, "go/ast": true, "go/constant": true, "regexp": true, "bytes": true, "errors": true, "reflect": true, "math": true,
	"fmt": true, "flag": true, "golang.org/x/tools/go/ast/astutil": true, "github.com/go-toolsmith/astequal": true, "github.com/go-toolsmith/astcast": true,
	"github.com/go-toolsmith/astfmt": true, "github.com/go-toolsmith/typep": true, "github.com/go-toolsmith/astp": true, "github.com/go-toolsmith/strparse": true}

// orderSensitiveCall: a call inside a range-over-map loop that may change state shared between iterations - the effect would
// then depend on the order in which the keys are produced. Accepted: observers, and calls whose receiver / pointer arguments
// are derived from the iteration element or allocated by the function itself.
func orderSensitiveCall(fn *ssa.Function, callee *ssa.Function, cc *ssa.CallCommon, derived map[ssa.Value]bool) string {
	localOrDerived := func(v ssa.Value) bool {
		if derived[v] {
			return true
		}
		switch x := v.(type) {
		case *ssa.Alloc, *ssa.MakeMap, *ssa.MakeSlice, *ssa.Const, *ssa.MakeInterface:
			_ = x
			return true
		case *ssa.FieldAddr:
			return rootIsAlloc(x, 0)
		case *ssa.IndexAddr:
			return rootIsAlloc(x, 0)
		}
		return false
	}
	if callee.Pkg == nil && callee.Object() == nil {
		return ""
	}
	pkgPath := ""
	if callee.Pkg != nil {
		pkgPath = callee.Pkg.Pkg.Path()
	} else if o := callee.Object(); o != nil && o.Pkg() != nil {
		pkgPath = o.Pkg().Path()
	}
	if strings.HasPrefix(pkgPath, repoMod) {
		return "" // repository functions: emissions are tracked separately; their stores are classified where they happen
	}
	if c02PurePkgs[pkgPath] {
		if pkgPath == "fmt" && (strings.HasPrefix(callee.Name(), "Print") || strings.HasPrefix(callee.Name(), "Fprint")) {
			return ""
		}
		return ""
	}
	// other dependency: a method on a value that is neither the iteration element nor local may accumulate state in key order
	if callee.Signature.Recv() != nil && len(cc.Args) > 0 {
		if _, isPtr := callee.Signature.Recv().Type().Underlying().(*types.Pointer); isPtr && !localOrDerived(cc.Args[0]) {
			return "calls " + extKey(callee) + " on an object shared between iterations: its effect depends on the order of the keys"
		}
		return ""
	}
	for _, a := range cc.Args {
		if _, isPtr := a.Type().Underlying().(*types.Pointer); isPtr && !localOrDerived(a) {
			return "passes an object shared between iterations to " + extKey(callee) + ": its effect depends on the order of the keys"
		}
	}
	return ""
}
