package main

import (
	"bufio"
	"fmt"
	"go/types"
	"os"
	"path/filepath"
	"sort"
	"strings"

	"golang.org/x/tools/go/ssa"
)

// Zero-annotation sweeps (DESIGN §3, Tier C). Every function of the checker packages gets a synthesised
// entry assumption (assume/guarantee on non-nil receivers and syntax-node pointers, theory ast-valid) and its
// run-time-panic obligations are generated and discharged. The committed ledger /verif/ledger/<prop>.proved lists
// the obligations proved on the unchanged tree; an alarm is raised when one of those no longer discharges.
// Obligations that are not in the ledger and do not discharge are reported as UNDECIDED and are not claimed.

var sweepPkgs = []string{"checkers.", "checkers/internal/astwalk.", "checkers/internal/lintutil.", "linter."}

func inSweep(key string) bool {
	for _, p := range sweepPkgs {
		if strings.HasPrefix(key, p) {
			return true
		}
	}
	return false
}

func isAstPtr(t types.Type) bool {
	p, ok := t.Underlying().(*types.Pointer)
	if !ok {
		return false
	}
	n, ok := types.Unalias(p.Elem()).(*types.Named)
	return ok && n.Obj().Pkg() != nil && n.Obj().Pkg().Path() == "go/ast"
}

func isAstIface(t types.Type) bool {
	n, ok := types.Unalias(t).(*types.Named)
	if !ok || n.Obj().Pkg() == nil || n.Obj().Pkg().Path() != "go/ast" {
		return false
	}
	_, isI := n.Underlying().(*types.Interface)
	return isI
}

func isRepoStructPtr(t types.Type) bool {
	p, ok := t.Underlying().(*types.Pointer)
	if !ok {
		return false
	}
	n, ok := types.Unalias(p.Elem()).(*types.Named)
	if !ok || n.Obj().Pkg() == nil || !strings.HasPrefix(n.Obj().Pkg().Path(), repoMod) {
		return false
	}
	_, isS := n.Underlying().(*types.Struct)
	return isS
}

var walkerEntry = map[string]bool{"VisitStmt": true, "VisitExpr": true, "VisitLocalExpr": true, "VisitFuncDecl": true, "VisitTypeExpr": true,
	"VisitLocalDef": true, "VisitStmtList": true, "VisitComment": true, "VisitLocalComment": true, "VisitDocComment": true, "EnterFile": true, "EnterFunc": true, "WalkFile": true}

// sweepRequires synthesises the entry assumption of a function that has no contract.
func sweepRequires(fn *ssa.Function) []string {
	var rs []string
	for i, p := range fn.Params {
		t := p.Type()
		name := p.Name()
		if name == "" || name == "_" {
			continue
		}
		switch {
		case i == 0 && fn.Signature.Recv() != nil && isRepoStructPtr(t):
			rs = append(rs, name+" != nil")
			st := t.Underlying().(*types.Pointer).Elem().Underlying().(*types.Struct)
			for j := 0; j < st.NumFields(); j++ {
				f := st.Field(j)
				if f.Name() == "ctx" && strings.HasSuffix(f.Type().String(), "linter.CheckerContext") {
					rs = append(rs, fmt.Sprintf("%s.ctx != nil && %s.ctx.Context != nil && %s.ctx.TypesInfo != nil && %s.ctx.printer != nil", name, name, name, name))
				}
				if f.Name() == "visitor" && types.IsInterface(f.Type()) {
					rs = append(rs, fmt.Sprintf("!isNilIface(%s.visitor)", name))
				}
			}
		case isAstPtr(t) || isRepoStructPtr(t):
			rs = append(rs, name+" != nil")
			if strings.HasSuffix(t.String(), "linter.CheckerContext") {
				rs = append(rs, fmt.Sprintf("%s.Context != nil && %s.TypesInfo != nil", name, name))
			}
		case isAstIface(t) && walkerEntry[fn.Name()]:
			rs = append(rs, "!isNilIface("+name+")")
		case strings.HasSuffix(t.String(), "*go/types.Info"):
			rs = append(rs, name+" != nil")
		}
	}
	return rs
}

func (e *Engine) sweepContract(fn *ssa.Function, prop string) *Contract {
	ctr := &Contract{Key: funcKey(fn), Loops: map[int]*LoopSpec{}, Props: []string{prop}, File: "synthesised by govc (sweep)"}
	reqs := sweepRequires(fn)
	// closures: captured receivers / contexts / syntax nodes are the enclosing function's (non-nil) values
	for _, fv := range fn.FreeVars {
		et := fv.Type().(*types.Pointer).Elem()
		name := fv.Name()
		switch {
		case isRepoStructPtr(et):
			reqs = append(reqs, name+" != nil")
			st := et.Underlying().(*types.Pointer).Elem().Underlying().(*types.Struct)
			for j := 0; j < st.NumFields(); j++ {
				f := st.Field(j)
				if f.Name() == "ctx" && strings.HasSuffix(f.Type().String(), "linter.CheckerContext") {
					reqs = append(reqs, fmt.Sprintf("%s.ctx != nil && %s.ctx.Context != nil && %s.ctx.TypesInfo != nil && %s.ctx.printer != nil", name, name, name, name))
				}
				if f.Name() == "visitor" && types.IsInterface(f.Type()) {
					reqs = append(reqs, fmt.Sprintf("!isNilIface(%s.visitor)", name))
				}
			}
			if strings.HasSuffix(et.String(), "linter.CheckerContext") {
				reqs = append(reqs, fmt.Sprintf("%s.Context != nil && %s.TypesInfo != nil", name, name))
			}
		case isAstPtr(et):
			reqs = append(reqs, name+" != nil")
		}
	}
	for _, r := range reqs {
		c, err := parseClause("@sweep-entry "+r, "sweep")
		if err == nil {
			ctr.Requires = append(ctr.Requires, c)
		}
	}
	return ctr
}

func loadLedger(prop, kind string) map[string]bool {
	out := map[string]bool{}
	f, err := os.Open(filepath.Join(verifDir, "ledger", prop+"."+kind))
	if err != nil {
		return out
	}
	defer f.Close()
	sc := bufio.NewScanner(f)
	sc.Buffer(make([]byte, 1<<20), 1<<20)
	for sc.Scan() {
		l := strings.TrimSpace(sc.Text())
		if l != "" && !strings.HasPrefix(l, "#") {
			out[l] = true
		}
	}
	return out
}

func sweepHook(prop string, keep func(o *Obligation) bool) propHook {
	return func(c *checkCtx) {
		c.useLedger = true
		c.provedLedger = loadLedger(prop, "proved")
		c.frontierLedger = loadLedger(prop, "frontier")
		n := 0
		for _, k := range c.e.sortedFuncKeys() {
			if !inSweep(k) || c.funcs[k] {
				continue
			}
			fn := c.e.funcs[k]
			if len(fn.Blocks) == 0 || strings.Contains(k, "linttest") {
				continue
			}
			if strings.HasSuffix(k, ".init") {
				continue
			}
			ctr := c.e.ctrs[k]
			explicit := ctr != nil
			if ctr == nil {
				ctr = c.e.sweepContract(fn, prop)
			} else if ctr.Trusted {
				continue
			} else {
				// explicit contract: keep it, add the sweep's entry assumption
				cp := *ctr
				cp.Requires = append(append([]*Clause{}, ctr.Requires...), c.e.sweepContract(fn, prop).Requires...)
				ctr = &cp
			}
			opts := &genOptions{safety: true}
			var ifaceCtrs []*Contract
			if fn.Signature.Recv() != nil && fn.Pkg != nil {
				for key, ic := range c.e.ctrs {
					if strings.Contains(key, ".*.") && strings.HasSuffix(key, ".*."+fn.Name()) {
						ifaceCtrs = append(ifaceCtrs, ic)
					}
				}
				sort.Slice(ifaceCtrs, func(i, j int) bool { return ifaceCtrs[i].Key < ifaceCtrs[j].Key })
			}
			g := c.e.verifyWith(fn, ctr, opts, func(g *gen) {
				g.astValid = true
				g.nilArgs = true
				g.ifaceCtrs = ifaceCtrs
				if explicit && ctr.NoSafety {
					g.options.safety = true // the sweep is where the safety obligations of nosafety functions are generated
				}
			})
			c.addGenNoCover(g, func(o *Obligation) bool {
				switch o.Kind {
				case "nil", "index", "slice", "typeassert", "div", "panic", "makeslice", "nilarg":
					return keep == nil || keep(o)
				case "post":
					return strings.HasPrefix(o.Label, "implements ")
				}
				if strings.HasPrefix(o.Kind, "call/") && strings.Contains(o.Kind, "/pre") {
					// preconditions of assumed contracts of dependencies (e.g. ast.Inspect needs a non-nil node)
					return true
				}
				return false
			})
			n++
		}
		c.extraEv["sweep_functions"] = n
	}
}

// writeLedger records the obligations proved in this run (used when VERIF_WRITE_LEDGER is set, on the unchanged tree).
func writeLedger(prop string, jobs []job) {
	var names []string
	for _, j := range jobs {
		if !j.o.Cover && j.o.Result == "unsat" && j.o.TimeS < 2.0 {
			names = append(names, j.o.Name)
		}
	}
	sort.Strings(names)
	os.MkdirAll(filepath.Join(verifDir, "ledger"), 0o755)
	os.WriteFile(filepath.Join(verifDir, "ledger", prop+".proved"), []byte(strings.Join(names, "\n")+"\n"), 0o644)
	var fr []string
	for _, j := range jobs {
		if !j.o.Cover && !(j.o.Result == "unsat" && j.o.TimeS < 2.0) {
			fr = append(fr, j.o.Name)
		}
	}
	sort.Strings(fr)
	os.WriteFile(filepath.Join(verifDir, "ledger", prop+".frontier"), []byte("# obligations of the sweep that are NOT proved on the unchanged tree (not claimed; see DESIGN)\n"+strings.Join(fr, "\n")+"\n"), 0o644)
}

func init() {
	registerHook("C01", sweepHook("C01", nil))
}
