package main

import (
	"bufio"
	"fmt"
	"go/types"
	"os"
	"path/filepath"
	"sort"
	"strings"

	"golang.org/x/tools/go/ssa"
)

// Zero-annotation sweeps (DESIGN §3, Tier C). Every function of the checker packages gets a synthesised
// entry assumption (assume/guarantee on non-nil receivers and syntax-node pointers, theory ast-valid) and its
// run-time-panic obligations are generated and discharged. The committed ledger /verif/ledger/<prop>.proved lists
// the obligations proved on the unchanged tree; an alarm is raised when one of those no longer discharges.
// Obligations that are not in the ledger and do not discharge are reported as UNDECIDED and are not claimed.

var sweepPkgs = []string{"checkers.", "checkers/internal/astwalk.", "checkers/internal/lintutil.", "linter."}

func inSweep(key string) bool {
	for _, p := range sweepPkgs {
		if strings.HasPrefix(key, p) {
			return true
		}
	}
	return false
}

func isAstPtr(t types.Type) bool {
	p, ok := t.Underlying().(*types.Pointer)
	if !ok {
		return false
	}
	n, ok := types.Unalias(p.Elem()).(*types.Named)
	return ok && n.Obj().Pkg() != nil && n.Obj().Pkg().Path() == "go/ast"
}

func isAstIface(t types.Type) bool {
	n, ok := types.Unalias(t).(*types.Named)
	if !ok || n.Obj().Pkg() == nil || n.Obj().Pkg().Path() != "go/ast" {
		return false
	}
	_, isI := n.Underlying().(*types.Interface)
	return isI
}

func isAstIfaceSlice(t types.Type) bool {
	s, ok := t.Underlying().(*types.Slice)
	return ok && isAstIface(s.Elem())
}

func isAstNodeSlice(t types.Type) bool {
	s, ok := t.Underlying().(*types.Slice)
	return ok && (isAstIface(s.Elem()) || isAstPtr(s.Elem()))
}

func isRepoStructPtr(t types.Type) bool {
	p, ok := t.Underlying().(*types.Pointer)
	if !ok {
		return false
	}
	n, ok := types.Unalias(p.Elem()).(*types.Named)
	if !ok || n.Obj().Pkg() == nil || !strings.HasPrefix(n.Obj().Pkg().Path(), repoMod) {
		return false
	}
	_, isS := n.Underlying().(*types.Struct)
	return isS
}

var walkerEntry = map[string]bool{"VisitStmt": true, "VisitExpr": true, "VisitLocalExpr": true, "VisitFuncDecl": true, "VisitTypeExpr": true,
	"VisitLocalDef": true, "VisitStmtList": true, "VisitComment": true, "VisitLocalComment": true, "VisitDocComment": true, "EnterFile": true, "EnterFunc": true, "WalkFile": true}

// sweepRequires synthesises the entry assumption of a function that has no contract.
var sweepEngine *Engine

func sweepRequires(fn *ssa.Function) []string {
	var rs []string
	for i, p := range fn.Params {
		t := p.Type()
		name := p.Name()
		if name == "" || name == "_" {
			continue
		}
		switch {
		case i == 0 && fn.Signature.Recv() != nil && isRepoStructPtr(t):
			rs = append(rs, name+" != nil")
			st := t.Underlying().(*types.Pointer).Elem().Underlying().(*types.Struct)
			for j := 0; j < st.NumFields(); j++ {
				f := st.Field(j)
				if f.Name() == "ctx" && strings.HasSuffix(f.Type().String(), "linter.CheckerContext") {
					rs = append(rs, fmt.Sprintf("%s.ctx != nil && %s.ctx.Context != nil && %s.ctx.TypesInfo != nil && %s.ctx.printer != nil", name, name, name, name))
				}
				if f.Name() == "visitor" && types.IsInterface(f.Type()) {
					rs = append(rs, fmt.Sprintf("!isNilIface(%s.visitor)", name))
				}
			}
		case isAstPtr(t) || isRepoStructPtr(t):
			nilable := isAstPtr(t) && sweepEngine != nil && sweepEngine.nilableParam(fn, i)
			if !nilable {
				rs = append(rs, name+" != nil")
			}
			if isAstPtr(t) {
				pre := ""
				if nilable {
					pre = name + " == nil || "
				}
				if sweepEngine != nil && sweepEngine.sentinelParam(fn, i) {
					rs = append(rs, pre+"tnodeOrSentinel("+name+")")
				} else {
					rs = append(rs, pre+"tnode("+name+")")
				}
			}
			if strings.HasSuffix(t.String(), "linter.CheckerContext") {
				rs = append(rs, fmt.Sprintf("%s.Context != nil && %s.TypesInfo != nil", name, name))
			}
		case isAstIface(t) && walkerEntry[fn.Name()]:
			rs = append(rs, "!isNilIface("+name+")", "tnode("+name+")")
		case isAstIface(t):
			// assume/guarantee: a syntax-node argument is nil or a node of the analysed tree (call sites prove it)
			rs = append(rs, "isNilIface("+name+") || tnode("+name+")")
		case walkerEntry[fn.Name()] && isAstIfaceSlice(t):
			// the statement / expression list handed to a walker is a list of the analysed tree
			rs = append(rs, fmt.Sprintf("forall i int :: (0 <= i && i < len(%s)) ==> (!isNilIface(%s[i]) && tnode(%s[i]))", name, name, name), "astlist("+name+")")
		case isRxExpr(t):
			// assume/guarantee: a regexp expression passed between functions of the checkers is part of a parsed pattern
			rs = append(rs, "rxvalid("+name+")")
		case isAstNodeSlice(t):
			// assume/guarantee: a list of syntax nodes passed between functions of the checkers is a list of the analysed tree
			if isAstIfaceSlice(t) {
				rs = append(rs, fmt.Sprintf("forall i int :: (0 <= i && i < len(%s)) ==> (!isNilIface(%s[i]) && tnode(%s[i]))", name, name, name), "len("+name+") == 0 || astlist("+name+")")
			} else {
				rs = append(rs, fmt.Sprintf("forall i int :: (0 <= i && i < len(%s)) ==> tnode(%s[i])", name, name), "len("+name+") == 0 || astlist("+name+")")
			}
		case strings.HasSuffix(t.String(), "*go/types.Info"):
			rs = append(rs, name+" != nil")
		}
	}
	return rs
}

func (e *Engine) sweepContract(fn *ssa.Function, prop string) *Contract {
	sweepEngine = e
	ctr := &Contract{Key: funcKey(fn), Loops: map[int]*LoopSpec{}, Props: []string{prop}, File: "synthesised by govc (sweep)"}
	reqs := sweepRequires(fn)
	if e.needPrivate != nil {
		reqs = append(reqs, e.privateRequires(fn)...)
	}
	if e.needNode != nil && prop == "C07" {
		reqs = append(reqs, e.nodeRequires(fn)...)
	}
	// closures: captured receivers / contexts / syntax nodes are the enclosing function's (non-nil) values
	for _, fv := range fn.FreeVars {
		et := fv.Type().(*types.Pointer).Elem()
		name := fv.Name()
		switch {
		case isRepoStructPtr(et):
			reqs = append(reqs, name+" != nil")
			st := et.Underlying().(*types.Pointer).Elem().Underlying().(*types.Struct)
			for j := 0; j < st.NumFields(); j++ {
				f := st.Field(j)
				if f.Name() == "ctx" && strings.HasSuffix(f.Type().String(), "linter.CheckerContext") {
					reqs = append(reqs, fmt.Sprintf("%s.ctx != nil && %s.ctx.Context != nil && %s.ctx.TypesInfo != nil && %s.ctx.printer != nil", name, name, name, name))
				}
				if f.Name() == "visitor" && types.IsInterface(f.Type()) {
					reqs = append(reqs, fmt.Sprintf("!isNilIface(%s.visitor)", name))
				}
			}
			if strings.HasSuffix(et.String(), "linter.CheckerContext") {
				reqs = append(reqs, fmt.Sprintf("%s.Context != nil && %s.TypesInfo != nil", name, name))
			}
		case isAstPtr(et):
			reqs = append(reqs, name+" != nil", "tnode("+name+")")
		}
	}
	for _, r := range reqs {
		if strings.HasPrefix(r, "@") {
			if c, err := parseClause(r, "sweep"); err == nil {
				ctr.Requires = append(ctr.Requires, c)
			}
			continue
		}
		c, err := parseClause("@sweep-entry "+r, "sweep")
		if err == nil {
			ctr.Requires = append(ctr.Requires, c)
		}
	}
	return ctr
}

// ownedPlaces lists what a function may write besides objects it allocates itself: the state owned by the
// checker it belongs to (the receiver object with its embedded structs, the contents of its map and slice
// fields, the warning buffer of its CheckerContext). Everything else - the syntax tree, type information,
// the shared Context, registered metadata, other checkers - must stay untouched (property C05).
func (e *Engine) ownedPlaces(name string, t types.Type, depth int) []string {
	var out []string
	pt, ok := t.Underlying().(*types.Pointer)
	if !ok {
		return nil
	}
	st, ok := pt.Elem().Underlying().(*types.Struct)
	if !ok {
		return nil
	}
	if strings.HasSuffix(pt.Elem().String(), "linter.CheckerContext") {
		return []string{name + ".warnings", "elems(" + name + ".warnings)"}
	}
	if strings.HasSuffix(pt.Elem().String(), "linter.Context") || !isRepoStructPtr(t) {
		return nil
	}
	stab := newSortTable()
	var fields func(prefix string, owner types.Type, st *types.Struct, d int)
	fields = func(prefix string, owner types.Type, st *types.Struct, d int) {
		if d > 3 {
			return
		}
		sname := stab.structName(owner)
		for i := 0; i < st.NumFields(); i++ {
			f := st.Field(i)
			fn := prefix + "." + f.Name()
			// only fields that some method writes after construction are scratch state; the others are configuration
			written := e.writtenKeys == nil || e.writtenKeys[fieldKey(sname, f.Name())]
			switch u := f.Type().Underlying().(type) {
			case *types.Map:
				if written {
					out = append(out, fn)
				}
				out = append(out, "mapof("+fn+")")
			case *types.Slice:
				if written {
					out = append(out, fn)
				}
				out = append(out, "elems("+fn+")")
			case *types.Struct:
				fields(fn, f.Type(), u, d+1)
			case *types.Pointer:
				if written {
					out = append(out, fn)
				}
				if strings.HasSuffix(u.Elem().String(), "linter.CheckerContext") {
					out = append(out, fn+".warnings", "elems("+fn+".warnings)")
				}
			default:
				if written {
					out = append(out, fn)
				}
			}
		}
	}
	fields(name, pt.Elem(), st, depth)
	return out
}

func (e *Engine) sweepAssigns(fn *ssa.Function) []*SExpr {
	var places []string
	for _, p := range fn.Params {
		if p.Name() == "" || p.Name() == "_" {
			continue
		}
		places = append(places, e.ownedPlaces(p.Name(), p.Type(), 0)...)
	}
	for _, fv := range fn.FreeVars {
		places = append(places, e.ownedPlaces(fv.Name(), fv.Type().(*types.Pointer).Elem(), 0)...)
	}
	var out []*SExpr
	for _, pl := range places {
		if x, err := parseSpec(pl); err == nil {
			out = append(out, x)
		}
	}
	return out
}

// sweepFrameContract: the contract used for fn by the frame sweep, both when fn is verified and at its call sites:
// the explicit contract if there is one (with the owned-state frame added when it has no `assigns`), else a synthesised one.
func (e *Engine) sweepFrameContract(fn *ssa.Function, prop string) *Contract {
	if e.sweepCtrs == nil {
		e.sweepCtrs = map[*ssa.Function]*Contract{}
	}
	if c, ok := e.sweepCtrs[fn]; ok {
		return c
	}
	var out *Contract
	if ctr := e.ctrs[funcKey(fn)]; ctr != nil {
		cp := *ctr
		cp.Requires = append(append([]*Clause{}, ctr.Requires...), e.sweepContract(fn, prop).Requires...)
		if !cp.HasAssign {
			cp.HasAssign = true
			cp.Assigns = e.sweepAssigns(fn)
		} else if cp.TrustedFrame {
			cp.Assigns = append(append([]*SExpr{}, cp.Assigns...), e.sweepAssigns(fn)...)
		}
		cp.TrustedFrame = false
		out = &cp
	} else {
		out = e.sweepContract(fn, prop)
		out.HasAssign = true
		out.Assigns = e.sweepAssigns(fn)
	}
	// owned slices and maps stay owned: after the call each of them is what it was, or a freshly allocated one
	seen := map[string]bool{}
	for _, a := range out.Assigns {
		if a.Op != "call" || len(a.Args) != 1 || (a.Name != "elems" && a.Name != "mapof") {
			continue
		}
		x := a.Args[0].String()
		if seen[x] {
			continue
		}
		seen[x] = true
		var src string
		if a.Name == "elems" {
			src = fmt.Sprintf("@owned-slice-stays-owned base(%s) == old(base(%s)) || fresh(%s) || base(%s) == 0", x, x, x, x)
		} else {
			src = fmt.Sprintf("@owned-map-stays-owned %s == old(%s) || fresh(%s) || %s == nil", x, x, x, x)
		}
		if c, err := parseClause(src, "sweep"); err == nil {
			c.Label += " " + x
			out.Ensures = append(out.Ensures, c)
		}
	}
	e.sweepCtrs[fn] = out
	return out
}

// outside the scope of C05 ("running a checker"): registration and construction code
func frameSweepExcluded(key string) bool {
	if strings.HasPrefix(key, "checkers.init@") && !strings.Contains(key, "$") {
		return true
	}
	for _, p := range []string{"linter.addChecker", "linter.(*CheckerCollection).AddChecker", "checkers.InitEmbeddedRules", "linter.newChecker", "linter.NewChecker",
		"linter.validateChecker", "linter.getCheckersInfo", "linter.GetCheckersInfo", "checkers.newRuleguardChecker", "checkers.newErrorHandler", "linter.(*Context).Set", "linter.resolvePkg", "linter.NewContext"} {
		if strings.HasPrefix(key, p) {
			return true
		}
	}
	return false
}

func loadLedger(prop, kind string) map[string]bool {
	out := map[string]bool{}
	f, err := os.Open(filepath.Join(verifDir, "ledger", prop+"."+kind))
	if err != nil {
		return out
	}
	defer f.Close()
	sc := bufio.NewScanner(f)
	sc.Buffer(make([]byte, 1<<20), 1<<20)
	for sc.Scan() {
		l := strings.TrimSpace(sc.Text())
		if l != "" && !strings.HasPrefix(l, "#") {
			out[l] = true
		}
	}
	return out
}

func sweepHook(prop string, keep func(o *Obligation) bool) propHook {
	return sweepHookOpts(prop, keep, false)
}

func sweepHookOpts(prop string, keep func(o *Obligation) bool, frames bool) propHook {
	return func(c *checkCtx) {
		c.strictNew = frames
		c.useLedger = true
		c.provedLedger = loadLedger(prop, "proved")
		c.frontierLedger = loadLedger(prop, "frontier")
		n := 0
		nloops := 0
		for _, k := range c.e.sortedFuncKeys() {
			if !inSweep(k) || c.funcs[k] {
				continue
			}
			fn := c.e.funcs[k]
			if len(fn.Blocks) == 0 || strings.Contains(k, "linttest") {
				continue
			}
			if strings.HasSuffix(k, ".init") {
				continue
			}
			if frames && (frameSweepExcluded(k) || c.e.onlyCalledFromRegistration(fn)) {
				continue
			}
			ctr := c.e.ctrs[k]
			explicit := ctr != nil
			if frames {
				if ctr != nil && ctr.Trusted {
					continue
				}
				ctr = c.e.sweepFrameContract(fn, prop)
			} else if ctr == nil {
				ctr = c.e.sweepContract(fn, prop)
				if frames {
					ctr.HasAssign = true
					ctr.Assigns = c.e.sweepAssigns(fn)
				}
			} else if ctr.Trusted {
				continue
			} else {
				// explicit contract: keep it, add the sweep's entry assumption
				cp := *ctr
				cp.Requires = append(append([]*Clause{}, ctr.Requires...), c.e.sweepContract(fn, prop).Requires...)
				if frames && !cp.HasAssign {
					cp.HasAssign = true
					cp.Assigns = c.e.sweepAssigns(fn)
				}
				if frames && cp.TrustedFrame {
					cp.TrustedFrame = false // the sweep is where the frame of such functions is checked
					cp.Assigns = append(append([]*SExpr{}, cp.Assigns...), c.e.sweepAssigns(fn)...)
				}
				ctr = &cp
			}
			opts := &genOptions{safety: true}
			var ifaceCtrs []*Contract
			if fn.Signature.Recv() != nil && fn.Pkg != nil {
				for key, ic := range c.e.ctrs {
					if strings.Contains(key, ".*.") && strings.HasSuffix(key, ".*."+fn.Name()) {
						ifaceCtrs = append(ifaceCtrs, ic)
					}
				}
				sort.Slice(ifaceCtrs, func(i, j int) bool { return ifaceCtrs[i].Key < ifaceCtrs[j].Key })
			}
			var skip map[string]bool
			setup := func(g *gen) {
				g.astValid = true
				g.nilArgs = true
				g.ifaceCtrs = ifaceCtrs
				g.skipCand = skip
				if frames {
					g.sweepFrames = prop
				}
				if explicit && ctr.NoSafety {
					g.options.safety = true // the sweep is where the safety obligations of nosafety functions are generated
				}
			}
			g := c.e.verifyWith(fn, ctr, opts, setup)
			var droppedCand []job
			if frames {
				// candidate invariants: keep the ones that are inductive, re-verify without the others (their failed
				// obligations stay in the job list: on the unchanged tree they are part of the frontier)
				for pass := 0; pass < 3; pass++ {
					var cj []job
					for _, o := range g.obls {
						if strings.HasPrefix(o.Label, "local-slice-stays-local ") {
							cj = append(cj, job{g, o})
						}
					}
					if len(cj) == 0 {
						break
					}
					dischargeAll(cj, 3000, false)
					failed := false
					for _, j := range cj {
						if j.o.Result != "unsat" {
							if skip == nil {
								skip = map[string]bool{}
							}
							parts := strings.SplitN(j.o.Kind, "/", 2)
							skip[parts[0]+"/"+j.o.Label] = true
							droppedCand = append(droppedCand, j)
							failed = true
						}
					}
					if !failed {
						break
					}
					gOld := g
					g = c.e.verifyWith(fn, ctr, opts, setup)
					_ = gOld
				}
			}
			c.jobs = append(c.jobs, droppedCand...)
			if !frames {
				// termination of loops: a range over a finite sequence or map, a counting loop (decided on the SSA), or a
				// `decreases` clause (obligation loop#N/decreases, discharged by the solvers)
				for _, li := range g.loopList {
					ok, why := true, ""
					switch {
					case li.spec != nil && li.spec.Decreases != nil:
					case li.rangeIdx != nil:
					case headerHasNext(li.header):
					default:
						ok, why = countingLoop(li.header, li.blocks)
					}
					c.direct = append(c.direct, &directResult{Name: fmt.Sprintf("%s/loop#%d/has-a-termination-argument", k, li.ord), OK: ok,
						Detail: "the loop is neither a range over a finite sequence or map nor a counting loop towards a fixed bound (" + why + "), and its contract names no `decreases` measure"})
					nloops++
				}
			}
			c.addGenNoCover(g, func(o *Obligation) bool {
				if frames {
					if o.Kind == "frame" || strings.HasPrefix(o.Kind, "contract/assigns") {
						return true
					}
					if strings.HasPrefix(o.Kind, "loop#") && strings.HasPrefix(o.Label, "local-slice-stays-local ") {
						return true
					}
					if (o.Kind == "post" || strings.HasPrefix(o.Kind, "loop#")) && strings.HasPrefix(o.Label, "owned-") {
						return true
					}
					return strings.HasPrefix(o.Kind, "call/") && strings.Contains(o.Kind, "/pre") && strings.Contains(o.Label, "private")
				}
				switch o.Kind {
				case "nil", "index", "slice", "typeassert", "div", "panic", "makeslice", "nilarg":
					return keep == nil || keep(o)
				case "post":
					// the sweep reasons about callers with the postconditions of explicit contracts: they are part of what the
					// no-panic argument rests on, whichever property they were written for
					return explicit || strings.HasPrefix(o.Label, "implements ")
				}
				if explicit && strings.HasPrefix(o.Kind, "loop#") {
					return true // invariants the postconditions above are proved with
				}
				if explicit && strings.HasPrefix(o.Kind, "call/") {
					return true // call-site clauses of explicit contracts: what is handed to the callee (and to dependencies)
				}
				if strings.HasPrefix(o.Kind, "call/") && strings.HasSuffix(o.Kind, "/decreases") {
					return true // termination: recursive calls go to smaller arguments
				}
				if strings.HasPrefix(o.Kind, "call/") && strings.Contains(o.Kind, "/pre") {
					// preconditions of assumed contracts of dependencies (e.g. ast.Inspect needs a non-nil node)
					return true
				}
				return false
			})
			n++
		}
		c.extraEv["sweep_functions"] = n
		if !frames {
			// termination ("no checker hangs"): every function on a cycle of the static call graph carries a measure that
			// its recursive calls decrease (obligations call/<callee>/decreases above), or a stated reason
			nrec := 0
			for _, comp := range recursiveFunctions(c.e) {
				for _, f := range comp {
					k := funcKey(f)
					if !strings.HasPrefix(k, "checkers") && !strings.HasPrefix(k, "linter") {
						continue
					}
					nrec++
					ctr := c.e.ctrs[k]
					ok := ctr != nil && (ctr.Decreases != nil || ctr.TerminatesBy != "")
					if ctr != nil && ctr.TerminatesBy != "" {
						c.assumed["termination of "+k+" assumed: "+ctr.TerminatesBy] = true
					}
					c.direct = append(c.direct, &directResult{Name: k + "/termination/recursive-function-has-a-measure", OK: ok,
						Detail: "the function calls itself (directly or through " + fmt.Sprint(len(comp)-1) + " other function(s)) and its contract names no `decreases` measure: nothing shows that the recursion ends on cyclic types or deep trees"})
				}
			}
			c.extraEv["recursive_functions"] = nrec
			c.extraEv["loops_with_termination_argument"] = nloops
			c.assumed["termination: recursion through static calls and every loop of the swept packages are examined; recursion through function values (closures calling themselves through a variable, callbacks of ast.Inspect), termination of the dependencies (parsers, go/types, the rule engine) and ranges over maps that grow while they are ranged over are not"] = true
		}
	}
}

// writeLedger records the obligations proved in this run (used when VERIF_WRITE_LEDGER is set, on the unchanged tree).
func writeLedger(prop string, jobs []job) {
	if prop == "C01" {
		// parameters whose strict "is a tree node" guarantee fails at some call site get the weaker form from the next run on
		cur := loadLedger("C01", "sentinel-params")
		added := 0
		for _, j := range jobs {
			if strings.HasPrefix(j.o.Meta, "sentparam:") && j.o.Result != "unsat" {
				k := strings.TrimPrefix(j.o.Meta, "sentparam:")
				if !cur[k] {
					cur[k] = true
					added++
				}
			}
		}
		var ks []string
		for k := range cur {
			ks = append(ks, k)
		}
		sort.Strings(ks)
		os.WriteFile(filepath.Join(verifDir, "ledger", "C01.sentinel-params"), []byte("# parameters assumed to be a tree node OR the all-zero node astcast.NilX (their strict guarantee fails at some call site); regenerate with VERIF_WRITE_LEDGER=1 until no line is added\n"+strings.Join(ks, "\n")+"\n"), 0o644)
		fmt.Printf("ledger: %d sentinel-tolerant parameters (%d added in this run; rerun until 0 are added)\n", len(ks), added)
		curN := loadLedger("C01", "nilable-params")
		addedN := 0
		for _, j := range jobs {
			if strings.HasPrefix(j.o.Meta, "nilparam:") && j.o.Result != "unsat" {
				k := strings.TrimPrefix(j.o.Meta, "nilparam:")
				if !curN[k] {
					curN[k] = true
					addedN++
				}
			}
		}
		var kn []string
		for k := range curN {
			kn = append(kn, k)
		}
		sort.Strings(kn)
		os.WriteFile(filepath.Join(verifDir, "ledger", "C01.nilable-params"), []byte("# syntax-node pointer parameters that are NOT assumed non-nil (some call site cannot prove it); regenerate with VERIF_WRITE_LEDGER=1 until no line is added\n"+strings.Join(kn, "\n")+"\n"), 0o644)
		fmt.Printf("ledger: %d nilable node parameters (%d added in this run; rerun until 0 are added)\n", len(kn), addedN)
	}
	var names []string
	for _, j := range jobs {
		if !j.o.Cover && j.o.Result == "unsat" && j.o.TimeS < 1.0 {
			names = append(names, j.o.Name)
		}
	}
	sort.Strings(names)
	os.MkdirAll(filepath.Join(verifDir, "ledger"), 0o755)
	os.WriteFile(filepath.Join(verifDir, "ledger", prop+".proved"), []byte(strings.Join(names, "\n")+"\n"), 0o644)
	var fr []string
	for _, j := range jobs {
		if !j.o.Cover && !(j.o.Result == "unsat" && j.o.TimeS < 1.0) {
			fr = append(fr, j.o.Name)
		}
	}
	sort.Strings(fr)
	os.WriteFile(filepath.Join(verifDir, "ledger", prop+".frontier"), []byte("# obligations of the sweep that are NOT proved on the unchanged tree (not claimed; see DESIGN)\n"+strings.Join(fr, "\n")+"\n"), 0o644)
}

func init() {
	registerHook("C01", sweepHook("C01", nil))
	registerHook("C05", sweepHookOpts("C05", nil, true))
	// C04: checkers run concurrently over one file; that they do not race rests on each of them writing only state it
	// owns - the same frame obligations, discharged again under C04 (with their own ledger)
	registerHook("C04", sweepHookOpts("C04", nil, true))
}

// headerHasNext: the loop is a range over a map or a string (ssa.Next in its header)
func headerHasNext(b *ssa.BasicBlock) bool {
	for _, ins := range b.Instrs {
		if _, ok := ins.(*ssa.Next); ok {
			return true
		}
	}
	return false
}

// onlyCalledFromRegistration: a plain function (not a method, whose callers may be dynamic) all of whose static callers are
// registration-time code excluded from the frame sweep - e.g. a helper extracted from addChecker. It runs at registration
// time as well, where there is no analysed tree and no concurrent checker to protect.
func (e *Engine) onlyCalledFromRegistration(fn *ssa.Function) bool {
	if e.regOnly == nil {
		e.regOnly = map[*ssa.Function]bool{}
		// direct calls only; a function that is also used as a value (stored, passed, turned into a closure) can be called
		// from anywhere at any time and is never excluded
		callers := map[*ssa.Function][]*ssa.Function{}
		usedAsValue := map[*ssa.Function]bool{}
		for _, k := range e.sortedFuncKeys() {
			f := e.funcs[k]
			for _, b := range f.Blocks {
				for _, ins := range b.Instrs {
					var direct *ssa.Function
					if call, ok := ins.(ssa.CallInstruction); ok {
						direct = call.Common().StaticCallee()
						if direct != nil {
							callers[direct] = append(callers[direct], f)
						}
					}
					if mc, ok := ins.(*ssa.MakeClosure); ok {
						if t, ok := mc.Fn.(*ssa.Function); ok {
							usedAsValue[t] = true
						}
					}
					if _, isDbg := ins.(*ssa.DebugRef); isDbg {
						continue
					}
					var ops []*ssa.Value
					for i, op := range ins.Operands(ops) {
						if op == nil || *op == nil {
							continue
						}
						if t, ok := (*op).(*ssa.Function); ok {
							if call, isCall := ins.(ssa.CallInstruction); isCall && i == 0 && call.Common().StaticCallee() == t && !call.Common().IsInvoke() {
								continue // the callee position of a direct call
							}
							usedAsValue[t] = true
						}
					}
				}
			}
		}
		excluded := func(f *ssa.Function) bool { return frameSweepExcluded(funcKey(f)) || e.regOnly[f] }
		for changed := true; changed; {
			changed = false
			for _, k := range e.sortedFuncKeys() {
				f := e.funcs[k]
				if e.regOnly[f] || frameSweepExcluded(k) {
					continue
				}
				root := f
				for root.Parent() != nil {
					root = root.Parent()
				}
				if root.Signature.Recv() != nil || len(callers[f]) == 0 || usedAsValue[f] || f.Parent() != nil {
					continue
				}
				all := true
				for _, c := range callers[f] {
					if !excluded(c) {
						all = false
					}
				}
				if all {
					e.regOnly[f] = true
					changed = true
				}
			}
		}
	}
	if os.Getenv("VERIF_SHOW_REGONLY") != "" && !e.regShown {
		e.regShown = true
		for _, k := range e.sortedFuncKeys() {
			if e.regOnly[e.funcs[k]] {
				fmt.Println("REGONLY", k)
			}
		}
	}
	return e.regOnly[fn]
}

// ifaceContractsOf: the contracts written for an interface method (`*.Name`) that fn implements by name
func (e *Engine) ifaceContractsOf(fn *ssa.Function) []*Contract {
	var out []*Contract
	if fn.Signature.Recv() == nil || fn.Pkg == nil {
		return nil
	}
	for key, ic := range e.ctrs {
		if strings.Contains(key, ".*.") && strings.HasSuffix(key, ".*."+fn.Name()) {
			out = append(out, ic)
		}
	}
	sort.Slice(out, func(i, j int) bool { return out[i].Key < out[j].Key })
	return out
}
