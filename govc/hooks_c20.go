package main

import (
	"fmt"
	"go/ast"
	"go/parser"
	"go/token"
	"go/types"
	"os"
	"path/filepath"
	"regexp"
	"runtime"
	"sort"
	"strconv"
	"strings"

	"golang.org/x/tools/go/ssa"
)

// C20 (DESIGN §7 C20): a diagnostic about a particular builtin or standard-library function is issued only when the
// flagged call resolves to that function. The deductive part are the contracts with `prop C20`:
//   - resolvedQualifiedName returns exactly what types.Info resolves the callee to (spec function resolvedName);
//   - in every API-specific checker either each function between the recognition of the callee and the diagnostic
//     carries the fact as a precondition ("subject-is-..." clauses down to a `call Warn requires` clause), or the
//     function that recognises the callee has a gate clause (`call <analysis> requires @gate-...`) on the only
//     call that leads to diagnostics.
// This hook adds the structural obligation that makes the gates meaningful (decided on the call graph of the
// current SSA, no solver): within each API-specific checker type, every function that can reach a diagnostic is
// either under such a contract or reachable only through functions that are.

var c20Checkers = []string{"appendAssignChecker", "appendCombineChecker", "badRegexpChecker", "regexpPatternChecker", "regexpSimplifyChecker",
	"sortSliceChecker", "filepathJoinChecker", "exitAfterDeferChecker", "newDerefChecker", "rangeAppendAllChecker", "flagNameChecker"}

func recvTypeName(fn *ssa.Function) string {
	for fn.Parent() != nil {
		fn = fn.Parent()
	}
	if fn.Signature.Recv() == nil {
		return ""
	}
	t := fn.Signature.Recv().Type()
	if p, ok := t.Underlying().(*types.Pointer); ok {
		t = p.Elem()
	}
	if n, ok := types.Unalias(t).(*types.Named); ok {
		return n.Obj().Name()
	}
	return ""
}

func ctrHasProp(ctr *Contract, p string) bool {
	return ctr != nil && hasProp(ctr.Props, p)
}

func init() {
	registerHook("C20", func(c *checkCtx) {
		e := c.e
		// call graph restricted to static callees and closures created
		callees := map[*ssa.Function][]*ssa.Function{}
		callers := map[*ssa.Function][]*ssa.Function{}
		directWarn := map[*ssa.Function]bool{}
		for _, k := range e.sortedFuncKeys() {
			fn := e.funcs[k]
			for _, b := range fn.Blocks {
				for _, ins := range b.Instrs {
					var tgt *ssa.Function
					switch ins := ins.(type) {
					case ssa.CallInstruction:
						tgt = ins.Common().StaticCallee()
						if tgt == nil {
							if mc, ok := ins.Common().Value.(*ssa.MakeClosure); ok {
								tgt = mc.Fn.(*ssa.Function)
							}
						}
					case *ssa.MakeClosure:
						tgt = ins.Fn.(*ssa.Function)
					}
					if tgt == nil {
						continue
					}
					if _, _, w := isWarnFunc(tgt); w {
						directWarn[fn] = true
						continue
					}
					callees[fn] = append(callees[fn], tgt)
					callers[tgt] = append(callers[tgt], fn)
				}
			}
		}
		reach := map[*ssa.Function]bool{}
		for f := range directWarn {
			reach[f] = true
		}
		for changed := true; changed; {
			changed = false
			for f, cs := range callees {
				if reach[f] {
					continue
				}
				for _, t := range cs {
					if reach[t] {
						reach[f] = true
						changed = true
						break
					}
				}
			}
		}
		// (a)-covered: the function carries the resolution fact as a precondition down to the diagnostic
		carries := func(fn *ssa.Function) bool {
			ctr := e.ctrs[funcKey(fn)]
			if !ctrHasProp(ctr, "C20") {
				return false
			}
			for _, r := range ctr.Requires {
				if strings.HasPrefix(r.Label, "subject-is") {
					return true
				}
			}
			return false
		}
		clauseFor := func(ctr *Contract, calleeKey string) bool {
			for _, cc := range ctr.Calls {
				if strings.Contains(calleeKey, cc.Callee) && (len(cc.Props) == 0 || hasProp(cc.Props, "C20")) {
					return true
				}
			}
			return false
		}
		seenTypes := map[string]bool{}
		nfuncs := 0
		for _, tname := range c20Checkers {
			var members []*ssa.Function
			for _, k := range e.sortedFuncKeys() {
				if strings.HasPrefix(k, "checkers.") && recvTypeName(e.funcs[k]) == tname {
					members = append(members, e.funcs[k])
				}
			}
			hasCtr := false
			for _, m := range members {
				if ctrHasProp(e.ctrs[funcKey(m)], "C20") {
					hasCtr = true
				}
			}
			seenTypes[tname] = true
			if !hasCtr {
				c.direct = append(c.direct, &directResult{Name: "checkers." + tname + "/api-specific-checker-under-contract", OK: false,
					Detail: "no function of this API-specific checker carries a C20 contract: nothing ties its diagnostics to the resolution of the callee"})
				continue
			}
			memo := map[*ssa.Function]int{} // 1 = in progress / covered, 2 = not covered
			why := map[*ssa.Function]string{}
			var covered func(w *ssa.Function) bool
			covered = func(w *ssa.Function) bool {
				if v, ok := memo[w]; ok {
					return v == 1
				}
				memo[w] = 1
				ctr := e.ctrs[funcKey(w)]
				fail := func(msg string) bool {
					memo[w] = 2
					why[w] = msg
					return false
				}
				if ctrHasProp(ctr, "C20") {
					// verified under its contract: every step towards a diagnostic is either a clause of this contract
					// or a call of a function that carries the fact as its precondition
					if directWarn[w] && !clauseFor(ctr, "linter.(*CheckerContext).Warn") {
						return fail("calls Warn without a `call Warn requires` clause")
					}
					for _, t := range callees[w] {
						if !reach[t] || recvTypeName(t) != tname {
							continue
						}
						if clauseFor(ctr, funcKey(t)) || carries(t) {
							continue
						}
						if t.Parent() == w && ctrHasProp(e.ctrs[funcKey(t)], "C20") {
							continue // a closure of this function that is itself under contract
						}
						return fail("calls " + funcKey(t) + ", which leads to a diagnostic, without a gate clause, and that function does not carry the resolution fact as a precondition")
					}
					return true
				}
				// not under contract, but everything it does towards a diagnostic happens in closures that are under contract
				onlyClosures := !directWarn[w]
				for _, t := range callees[w] {
					if reach[t] && recvTypeName(t) == tname && !(t.Parent() == w && ctrHasProp(e.ctrs[funcKey(t)], "C20")) {
						onlyClosures = false
					}
				}
				if onlyClosures {
					return true
				}
				// otherwise acceptable only when every way into it comes from a covered function of the same checker
				if walkerEntry[w.Name()] && w.Parent() == nil {
					return fail("walker entry point reaches a diagnostic without any C20 contract")
				}
				cs := callers[w]
				if len(cs) == 0 {
					return fail("reaches a diagnostic, has no C20 contract and no static caller (called through a function value?)")
				}
				for _, cl := range cs {
					if recvTypeName(cl) != tname {
						return fail("called from " + funcKey(cl) + ", outside the checker")
					}
					if !covered(cl) {
						return fail("called from " + funcKey(cl) + ", which is not covered: " + why[cl])
					}
					// the covered caller must gate this call (or be an ungated interior function itself)
					if cctr := e.ctrs[funcKey(cl)]; ctrHasProp(cctr, "C20") && !clauseFor(cctr, funcKey(w)) {
						return fail("called from " + funcKey(cl) + " without a gate clause for this call")
					}
				}
				return true
			}
			sort.Slice(members, func(i, j int) bool { return funcKey(members[i]) < funcKey(members[j]) })
			for _, m := range members {
				if !reach[m] {
					continue
				}
				nfuncs++
				ok := covered(m)
				c.direct = append(c.direct, &directResult{Name: funcKey(m) + "/every-path-to-a-diagnostic-is-gated", OK: ok,
					Detail: "a function of an API-specific checker can reach a diagnostic without passing a point where the callee was resolved: " + why[m]})
			}
			// functions that carry the fact must have all their callers verified under C20 (that is where the precondition is discharged)
			for _, m := range members {
				if !carries(m) {
					continue
				}
				for _, cl := range callers[m] {
					ok := ctrHasProp(e.ctrs[funcKey(cl)], "C20")
					c.direct = append(c.direct, &directResult{Name: fmt.Sprintf("%s/precondition-discharged-by-caller/%s", funcKey(m), funcKey(cl)), OK: ok,
						Detail: "the caller has no C20 contract, so the resolution precondition of the callee is not discharged under this property"})
				}
			}
		}
		c.extraEv["api_specific_checkers"] = c20Checkers
		c.extraEv["functions_reaching_a_diagnostic"] = nfuncs
		c.assumed["calls through function values and bound method values are not part of the call graph used by the gate obligation"] = true
		c.assumed["rule-based checkers (strings/bytes/fmt/sync/http/time helpers in rule patterns) resolve packages inside the rule engine (dependency) - not covered"] = true
	})
}


// Rule-based checkers: the rule engine resolves a package qualifier of a pattern through type information only when
// the selected member is spelled out (assumed behaviour of the dependency gogrep: `regexp.Compile($x)` is matched through
// *types.PkgName, `regexp.$fn($x)` by the spelling of `regexp`). One obligation per pattern of the precompiled rule data
// that names a standard-library package: the member after the qualifier is a literal name.
func init() {
	registerHook("C20", func(c *checkCtx) {
		std := stdPackageNames()
		for path := range c.e.byPkg {
			if first := strings.SplitN(path, "/", 2)[0]; !strings.Contains(first, ".") {
				std[path[strings.LastIndex(path, "/")+1:]] = true
			}
		}
		groups, err := readRulePatterns(filepath.Join(c.e.repo, "checkers", "rulesdata", "rulesdata.go"))
		if err != nil {
			c.direct = append(c.direct, &directResult{Name: "rulesdata/readable", OK: false, Detail: err.Error()})
			return
		}
		n := 0
		re := regexp.MustCompile(`(^|[^A-Za-z0-9_.$])([a-z][A-Za-z0-9_]*)\.(\$?[A-Za-z_*][A-Za-z0-9_]*)`)
		for _, g := range groups {
			for i, pat := range g.patterns {
				for _, m := range re.FindAllStringSubmatch(pat, -1) {
					if !std[m[2]] {
						continue
					}
					n++
					ok := !strings.HasPrefix(m[3], "$")
					c.direct = append(c.direct, &directResult{Name: fmt.Sprintf("rules/%s/pattern#%d/%s-member-is-spelled-out", g.name, i+1, m[2]), OK: ok,
						Detail: fmt.Sprintf("pattern %q selects a member of standard package %s through a wildcard: the qualifier is then matched by spelling, so a variable or user package named %s is reported as if it were the standard one", pat, m[2], m[2])})
				}
			}
		}
		c.extraEv["rule_patterns_naming_a_standard_package"] = n
		c.assumed["the rule engine (gogrep) resolves `pkg.Member` in callee position through types.PkgName when Member is a literal name and pkg is in its table of standard packages or imported by the rule group (dependency, not verified; the table itself is read from the dependency's source on every run)"] = true

		// (2) the qualifier of every such pattern is resolvable by the engine: it is in gogrep's table of standard
		// packages or the group imports it; otherwise the engine silently falls back to matching the spelling
		irGroups, ok := c.ruleData()
		if !ok {
			return
		}
		table, terr := gogrepStdTable(c.e)
		if terr != nil {
			c.direct = append(c.direct, &directResult{Name: "rules/engine-table-of-standard-packages/readable", OK: false, Detail: terr.Error()})
			return
		}
		c.extraEv["engine_std_table_entries"] = len(table)
		builtinRe := regexp.MustCompile(`(^|[^A-Za-z0-9_.$])(append|cap|clear|close|complex|copy|delete|imag|len|make|max|min|new|panic|print|println|real|recover)\(`)
		calleeRe := regexp.MustCompile(`(^|[^A-Za-z0-9_.$])([a-z][A-Za-z0-9_]*)\.([A-Za-z_][A-Za-z0-9_]*)`)
		api, aerr := loadStdAPI()
		if aerr != nil {
			c.direct = append(c.direct, &directResult{Name: "rules/standard-library-api-files/readable", OK: false, Detail: aerr.Error()})
			return
		}
		nonFunc := 0
		nb, nq := 0, 0
		for _, g := range irGroups {
			for i, r := range g.Rules {
				for j, pat := range r.Patterns {
					pn := fmt.Sprintf("rules/%s/rule#%d/pattern#%d", g.Name, i+1, j+1)
					for _, m := range builtinRe.FindAllStringSubmatch(pat, -1) {
						nb++
						c.direct = append(c.direct, &directResult{Name: pn + "/builtin-" + m[2] + "-is-resolved-not-spelled", OK: false,
							Detail: fmt.Sprintf("pattern %q names the builtin %s literally: the engine matches any identifier spelled %s, so a user-defined function of that name is reported as the builtin; use a pattern variable with Text == %q and Object.Is(`Builtin`)", pat, m[2], m[2], m[2])})
					}
					for _, v := range varOccurrences(pat) {
						for _, b := range []string{"append", "cap", "copy", "len", "new", "make", "delete"} {
							if textIs(r, v, b) && strings.Contains(pat, "$"+v+"(") {
								nb++
								c.direct = append(c.direct, &directResult{Name: pn + "/builtin-" + b + "-is-resolved-not-spelled", OK: hasFilterArg(r, "FilterVarObjectIsOp", v, "Builtin"),
									Detail: fmt.Sprintf("pattern %q: $%s is required to be spelled %s but not to denote the predeclared function", pat, v, b)})
							}
						}
					}
					seenQ := map[string]bool{}
					calleeQual := map[string]bool{} // qualifiers that the same pattern also uses in callee position
					for _, mi := range calleeRe.FindAllStringSubmatchIndex(pat, -1) {
						if mi[7] < len(pat) && pat[mi[7]] == '(' && !strings.Contains(pat, "func") && !strings.Contains(pat, "{") {
							calleeQual[pat[mi[4]:mi[5]]] = true
						}
					}
					for _, mi := range calleeRe.FindAllStringSubmatchIndex(pat, -1) {
						m := []string{"", "", pat[mi[4]:mi[5]], pat[mi[6]:mi[7]], ""}
						if mi[7] < len(pat) && pat[mi[7]] == '(' {
							m[4] = "("
						}
						if !std[m[2]] {
							continue
						}
						key := m[2] + "." + m[3] + m[4]
						if seenQ[key] {
							continue
						}
						seenQ[key] = true
						nq++
						_, inTable := table[m[2]]
						_, imported := g.Imports[m[2]]
						c.direct = append(c.direct, &directResult{Name: fmt.Sprintf("%s/%s-is-known-to-the-engine-as-a-package", pn, m[2]), OK: inTable || imported,
							Detail: fmt.Sprintf("pattern %q: %s is neither in the engine's table of standard packages nor imported by the rule group (m.Import): the qualifier is matched by spelling, so a variable or user package named %s is reported as the standard one", pat, m[2], m[2])})
						if _, isFunc := api.funcs[m[2]+"."+m[3]]; m[4] != "(" && !isFunc {
							nonFunc++ // a type, variable or constant of a standard package: not a function, outside the statement of C20
						} else if m[4] != "(" && !calleeQual[m[2]] {
							// (when the same qualifier is also the callee's, both occurrences are in one scope of a block-free
							// expression and denote the same object: the callee's resolution covers this one)
							// a qualified function name outside callee position (an argument, an operand) is compiled as a plain selector
							c.direct = append(c.direct, &directResult{Name: fmt.Sprintf("%s/%s.%s-outside-callee-position-is-resolved", pn, m[2], m[3]), OK: false,
								Detail: fmt.Sprintf("pattern %q mentions %s.%s outside callee position: the engine resolves package qualifiers only for the called function, here the qualifier is matched by spelling", pat, m[2], m[3])})
						}
					}
				}
			}
		}
		c.extraEv["rule_patterns_naming_a_builtin"] = nb
		c.extraEv["rule_pattern_mentions_of_standard_types_variables_constants_not_decided"] = nonFunc
		c.extraEv["rule_pattern_qualifiers_checked_against_engine_table"] = nq
	})
}

// gogrepStdTable reads the name -> path table of standard packages that the rule engine's matcher consults
// (github.com/quasilyte/gogrep/internal/stdinfo, var Packages) from the dependency's source.
func gogrepStdTable(e *Engine) (map[string]string, error) {
	p := e.byPkg["github.com/quasilyte/gogrep/internal/stdinfo"]
	if p == nil {
		return nil, fmt.Errorf("package github.com/quasilyte/gogrep/internal/stdinfo is not among the loaded dependencies")
	}
	out := map[string]string{}
	for _, f := range p.Syntax {
		ast.Inspect(f, func(n ast.Node) bool {
			vs, ok := n.(*ast.ValueSpec)
			if !ok || len(vs.Names) != 1 || vs.Names[0].Name != "Packages" || len(vs.Values) != 1 {
				return true
			}
			if cl, ok := vs.Values[0].(*ast.CompositeLit); ok {
				for _, el := range cl.Elts {
					if kv, ok := el.(*ast.KeyValueExpr); ok {
						out[litString(kv.Key)] = litString(kv.Value)
					}
				}
			}
			return false
		})
	}
	if len(out) == 0 {
		return nil, fmt.Errorf("var Packages not found in github.com/quasilyte/gogrep/internal/stdinfo")
	}
	return out, nil
}

type ruleGroupPatterns struct {
	name     string
	patterns []string
}

func readRulePatterns(path string) ([]ruleGroupPatterns, error) {
	fset := token.NewFileSet()
	f, err := parser.ParseFile(fset, path, nil, 0)
	if err != nil {
		return nil, err
	}
	var out []ruleGroupPatterns
	ast.Inspect(f, func(n ast.Node) bool {
		cl, ok := n.(*ast.CompositeLit)
		if !ok {
			return true
		}
		var name string
		var rules ast.Expr
		for _, el := range cl.Elts {
			kv, ok := el.(*ast.KeyValueExpr)
			if !ok {
				continue
			}
			k, _ := kv.Key.(*ast.Ident)
			if k == nil {
				continue
			}
			switch k.Name {
			case "Name":
				if bl, ok := kv.Value.(*ast.BasicLit); ok {
					name, _ = strconv.Unquote(bl.Value)
				}
			case "Rules":
				rules = kv.Value
			}
		}
		if rules == nil || name == "" {
			return true
		}
		g := ruleGroupPatterns{name: name}
		ast.Inspect(rules, func(m ast.Node) bool {
			kv, ok := m.(*ast.KeyValueExpr)
			if !ok {
				return true
			}
			if k, _ := kv.Key.(*ast.Ident); k != nil && k.Name == "SyntaxPatterns" {
				ast.Inspect(kv.Value, func(x ast.Node) bool {
					if kv2, ok := x.(*ast.KeyValueExpr); ok {
						if k2, _ := kv2.Key.(*ast.Ident); k2 != nil && k2.Name == "Value" {
							if bl, ok := kv2.Value.(*ast.BasicLit); ok {
								if s, err := strconv.Unquote(bl.Value); err == nil {
									g.patterns = append(g.patterns, s)
								}
							}
						}
					}
					return true
				})
				return false
			}
			return true
		})
		out = append(out, g)
		return false
	})
	return out, nil
}

func stdPackageNames() map[string]bool {
	out := map[string]bool{}
	root := filepath.Join(runtime.GOROOT(), "src")
	if r, err := filepath.EvalSymlinks(root); err == nil {
		root = r
	}
	filepath.WalkDir(root, func(p string, d os.DirEntry, err error) error {
		if err != nil || !d.IsDir() {
			return nil
		}
		b := d.Name()
		if b == "testdata" || b == "internal" || b == "vendor" || b == "cmd" || strings.HasPrefix(b, "_") || strings.HasPrefix(b, ".") {
			if p != root {
				return filepath.SkipDir
			}
		}
		if p != root {
			out[b] = true
		}
		return nil
	})
	return out
}
