package main

import (
	"fmt"
	"go/constant"
	"go/token"
	"go/types"
	"strings"

	"golang.org/x/tools/go/ssa"
)

type specEnv struct {
	vars  map[string]Val
	st    *state // state in which heap reads are evaluated (nil = current)
	old   *state // state for old()
	fn    *ssa.Function
	pkg   *types.Package
	depth int
	// callee mode: names are the callee's formal parameters only
	calleeMode bool
	// values of captured variables before the call (seen by old() in postconditions applied at a call site)
	oldVars map[string]Val
}

func (g *gen) rootFn() *ssa.Function {
	f := g.fn
	for f.Parent() != nil {
		f = f.Parent()
	}
	return f
}

func (g *gen) pkgTypes() *types.Package {
	f := g.rootFn()
	if f.Pkg != nil {
		return f.Pkg.Pkg
	}
	return nil
}

func (g *gen) specEnvAtEntry() *specEnv {
	return &specEnv{vars: map[string]Val{}, st: nil, old: g.entry, fn: g.fn, pkg: g.pkgTypes()}
}

func (g *gen) specEnvHere() *specEnv {
	return &specEnv{vars: map[string]Val{}, st: nil, old: g.entry, fn: g.fn, pkg: g.pkgTypes()}
}

func (g *gen) evalBool(env *specEnv, e *SExpr) (string, error) {
	v, err := g.evalSpec(env, e)
	if err != nil {
		return "", err
	}
	if v.Sort != "Bool" {
		return "", fmt.Errorf("expression %s is not boolean (sort %s)", e, v.Sort)
	}
	return v.T, nil
}

func (g *gen) withState(st *state, f func()) {
	if st == nil {
		f()
		return
	}
	save := g.cur
	saveBlock := g.curBlock
	saveOuter := g.outerState
	if g.outerState == nil {
		g.outerState = save
	}
	g.cur = st
	f()
	g.cur = save
	g.curBlock = saveBlock
	g.outerState = saveOuter
}

// assignedOnce: the local variable is assigned exactly once (and by no closure): once initialised it denotes the same
// value in every state.
func assignedOnce(a *ssa.Alloc) bool {
	if a.Referrers() == nil || cellWrittenElsewhere(a) {
		return false
	}
	n := 0
	for _, r := range *a.Referrers() {
		if st, ok := r.(*ssa.Store); ok && st.Addr == ssa.Value(a) {
			n++
		}
	}
	return n <= 1
}

// loadLocal reads a local variable of the function under verification. Inside old(...) the heap is the entry heap, but a
// local variable that is assigned exactly once (and did not exist at entry) still denotes its current value: old(lhs.Op) is
// the entry value of field Op of the node lhs points to now. Locals that are reassigned keep the usual meaning (their value
// in the old state, e.g. at the loop header for per-iteration clauses).
func (g *gen) loadLocal(pv Val, t types.Type) Val {
	if g.outerState == nil {
		return g.load(pv, t)
	}
	save := g.cur
	g.cur = g.outerState
	v := g.load(pv, t)
	g.cur = save
	return v
}

func binderSort(g *gen, env *specEnv, b Binder) (string, types.Type) {
	switch b.Type {
	case "int", "":
		return "Int", types.Typ[types.Int]
	case "string":
		return "String", types.Typ[types.String]
	case "bool":
		return "Bool", types.Typ[types.Bool]
	case "ref":
		return "Int", nil
	case "iface":
		return "Iface", nil
	case "slice":
		return "Slice", nil
	}
	if t := g.resolveType(env, b.Type); t != nil {
		return g.st.sortOf(t), t
	}
	return "Int", nil
}

// resolveType resolves "T", "*T", "pkg.T", "*pkg.T", "[]T" against the package scope.
func (g *gen) resolveType(env *specEnv, name string) types.Type {
	if strings.HasPrefix(name, "*") {
		if t := g.resolveType(env, name[1:]); t != nil {
			return types.NewPointer(t)
		}
		return nil
	}
	if strings.HasPrefix(name, "[]") {
		if t := g.resolveType(env, name[2:]); t != nil {
			return types.NewSlice(t)
		}
		return nil
	}
	if o := types.Universe.Lookup(name); o != nil {
		if tn, ok := o.(*types.TypeName); ok {
			return tn.Type()
		}
	}
	pkg := env.pkg
	if i := strings.LastIndex(name, "."); i >= 0 {
		pn, tn := name[:i], name[i+1:]
		if p := g.findPkg(env, pn); p != nil {
			if o := p.Scope().Lookup(tn); o != nil {
				if t, ok := o.(*types.TypeName); ok {
					return t.Type()
				}
			}
		}
		return nil
	}
	if pkg != nil {
		if o := pkg.Scope().Lookup(name); o != nil {
			if t, ok := o.(*types.TypeName); ok {
				return t.Type()
			}
		}
	}
	return nil
}

func (g *gen) lookupName(env *specEnv, name string) (Val, error) {
	if v, ok := env.vars[name]; ok {
		return v, nil
	}
	if strings.HasPrefix(name, "$i") && len(name) > 2 {
		// $i<k>: number of elements processed by the k-th (range) loop of the function, at the current point
		k := 0
		fmt.Sscanf(name[2:], "%d", &k)
		if k >= 1 && k <= len(g.loopList) {
			li := g.loopList[k-1]
			if li.rangeIdx != nil {
				if v, ok := g.vals[li.rangeIdx]; ok {
					return Val{T: app("+", v.T, "1"), Sort: "Int", Typ: li.rangeIdx.Type()}, nil
				}
			}
		}
		return Val{}, fmt.Errorf("%s: no such range loop (or not reached yet)", name)
	}
	if strings.HasPrefix(name, "$reg:") {
		rn := name[5:]
		for k, v := range g.vals {
			// registers are named per function: values of inlined callees share the map
			if k.Name() == rn && (k.Parent() == nil || k.Parent() == g.fn) {
				return v, nil
			}
		}
		return Val{}, fmt.Errorf("unknown register %s", rn)
	}
	if env.calleeMode {
		return g.lookupPkgName(env, name)
	}
	fn := env.fn
	if fn != nil {
		for _, p := range fn.Params {
			if p.Name() == name {
				return g.val(p), nil
			}
		}
		if v, ok := env.vars[name+"$result"]; ok {
			return v, nil
		}
		for _, fv := range fn.FreeVars {
			if fv.Name() == name {
				pv := g.val(fv)
				return g.load(pv, fv.Type().(*types.Pointer).Elem()), nil
			}
		}
		if dr, ok := g.debugVals[name]; ok {
			if c, isConst := dr.v.(*ssa.Const); isConst && c.Value == nil && dr.obj != nil {
				// go/ssa records `x := T{...}` first as the zero value; prefer an already computed value of the same variable
				for _, b := range fn.Blocks {
					for _, ins := range b.Instrs {
						if d, ok := ins.(*ssa.DebugRef); ok && d.Object() == dr.obj && !d.IsAddr {
							if _, isC := d.X.(*ssa.Const); !isC {
								if v, known := g.vals[d.X]; known {
									return v, nil
								}
							}
						}
					}
				}
			}
			v := g.val(dr.v)
			if dr.isAddr {
				if a, isAlloc := dr.v.(*ssa.Alloc); isAlloc && assignedOnce(a) {
					return g.loadLocal(v, dr.v.Type().Underlying().(*types.Pointer).Elem()), nil
				}
				return g.load(v, dr.v.Type().Underlying().(*types.Pointer).Elem()), nil
			}
			return v, nil
		}
		// address-taken locals (Alloc with the variable's name)
		for _, b := range fn.Blocks {
			for _, ins := range b.Instrs {
				if a, ok := ins.(*ssa.Alloc); ok && a.Comment == name {
					if pv, ok := g.vals[a]; ok {
						if assignedOnce(a) {
							return g.loadLocal(pv, a.Type().(*types.Pointer).Elem()), nil
						}
						return g.load(pv, a.Type().(*types.Pointer).Elem()), nil
					}
				}
			}
		}
		// values named through phi comments anywhere in the function (latest definition wins)
		var found *Val
		for _, b := range fn.Blocks {
			for _, ins := range b.Instrs {
				if p, ok := ins.(*ssa.Phi); ok && p.Comment == name {
					if v, ok := g.vals[p]; ok {
						vv := v
						found = &vv
					}
				}
			}
		}
		if found != nil {
			return *found, nil
		}
		// named SSA values via source-level definitions: x := <call/alloc> registers named by DebugRef are not
		// available in this build mode; fall through to package scope
	}
	return g.lookupPkgName(env, name)
}

func (g *gen) lookupPkgName(env *specEnv, name string) (Val, error) {
	if env.pkg != nil {
		if o := env.pkg.Scope().Lookup(name); o != nil {
			return g.objVal(o)
		}
	}
	return Val{}, fmt.Errorf("unknown name %q", name)
}

func (g *gen) objVal(o types.Object) (Val, error) {
	switch o := o.(type) {
	case *types.Const:
		return g.constantVal(o.Val(), o.Type()), nil
	case *types.Var:
		gname := shortPkg(o.Pkg().Path()) + "." + o.Name()
		addr := globalAddr(gname)
		t := o.Type()
		if _, ok := structOf(t); ok {
			return Val{T: g.loadStruct(addr, t), Sort: g.st.sortOf(t), Typ: t}, nil
		}
		pv := Val{T: addr, Sort: "Int", Typ: types.NewPointer(t), Place: &Place{Kind: plCell, Ref: addr, Elem: t}}
		return g.load(pv, t), nil
	}
	return Val{}, fmt.Errorf("unsupported object %s", o)
}

func (g *gen) constantVal(v constant.Value, t types.Type) Val {
	switch v.Kind() {
	case constant.Bool:
		if constant.BoolVal(v) {
			return Val{T: "true", Sort: "Bool", Typ: t}
		}
		return Val{T: "false", Sort: "Bool", Typ: t}
	case constant.String:
		return Val{T: smtString(constant.StringVal(v)), Sort: "String", Typ: t}
	case constant.Int:
		i, _ := constant.Int64Val(v)
		return Val{T: intLit(i), Sort: "Int", Typ: t}
	}
	return Val{T: "0", Sort: "Int", Typ: t}
}

func (g *gen) evalSpec(env *specEnv, e *SExpr) (Val, error) {
	var out Val
	var err error
	g.withState(env.st, func() { out, err = g.evalSpec1(env, e) })
	return out, err
}

func boolVal(t string) Val { return Val{T: t, Sort: "Bool", Typ: types.Typ[types.Bool]} }
func intVal(t string) Val  { return Val{T: t, Sort: "Int", Typ: types.Typ[types.Int]} }
func strVal(t string) Val  { return Val{T: t, Sort: "String", Typ: types.Typ[types.String]} }

func (g *gen) evalSpec1(env *specEnv, e *SExpr) (Val, error) {
	switch e.Op {
	case "int":
		return intVal(e.Lit), nil
	case "str":
		return strVal(smtString(e.Lit)), nil
	case "bool":
		return boolVal(e.Lit), nil
	case "nil":
		return Val{T: "0", Sort: "Int", Typ: types.Typ[types.UntypedNil]}, nil
	case "id":
		return g.lookupName(env, e.Name)
	case "old":
		sub := *env
		sub.st = env.old
		if len(env.oldVars) > 0 {
			sub.vars = map[string]Val{}
			for k, v := range env.vars {
				sub.vars[k] = v
			}
			for k, v := range env.oldVars {
				sub.vars[k] = v
			}
			sub.oldVars = nil
		}
		var out Val
		var err error
		g.withState(env.old, func() { out, err = g.evalSpec1(&sub, e.Args[0]) })
		return out, err
	case "forall", "exists":
		sub := *env
		sub.vars = map[string]Val{}
		for k, v := range env.vars {
			sub.vars[k] = v
		}
		var bs []string
		for _, b := range e.Binders {
			s, t := binderSort(g, env, b)
			n := g.freshName("q_" + b.Name)
			sub.vars[b.Name] = Val{T: n, Sort: s, Typ: t}
			bs = append(bs, "("+n+" "+s+")")
		}
		body, err := g.evalSpec1(&sub, e.Args[0])
		if err != nil {
			return Val{}, err
		}
		if body.Sort != "Bool" {
			return Val{}, fmt.Errorf("quantifier body not boolean: %s", e.Args[0])
		}
		return boolVal("(" + e.Op + " (" + strings.Join(bs, " ") + ") " + body.T + ")"), nil
	case "!":
		a, err := g.evalSpec1(env, e.Args[0])
		if err != nil {
			return Val{}, err
		}
		return boolVal(not(a.T)), nil
	case "neg":
		a, err := g.evalSpec1(env, e.Args[0])
		if err != nil {
			return Val{}, err
		}
		return intVal(app("-", a.T)), nil
	case "sel":
		return g.evalSel(env, e)
	case "idx":
		return g.evalIdx(env, e)
	case "slice":
		return g.evalSlice(env, e)
	case "call":
		return g.evalCall(env, e)
	}
	if len(e.Args) == 2 {
		a, err := g.evalSpec1(env, e.Args[0])
		if err != nil {
			return Val{}, err
		}
		b, err := g.evalSpec1(env, e.Args[1])
		if err != nil {
			return Val{}, err
		}
		switch e.Op {
		case "==>":
			return boolVal(implies(a.T, b.T)), nil
		case "<==>":
			return boolVal(eq(a.T, b.T)), nil
		case "&&":
			return boolVal(and(a.T, b.T)), nil
		case "||":
			return boolVal(or(a.T, b.T)), nil
		case "==", "!=":
			a, b = g.coerceNil(a, b)
			if a.Sort != b.Sort {
				return Val{}, fmt.Errorf("comparing %s with %s in %s", a.Sort, b.Sort, e)
			}
			t := g.equal(a, b)
			if a.Sort == "Slice" {
				// in specifications a nil slice is the full zero value (values in code are well-formed anyway)
				switch {
				case a.T == "(mk_slice 0 0 0 0)":
					t = and(eq(app("s_base", b.T), "0"), eq(app("s_len", b.T), "0"), eq(app("s_cap", b.T), "0"))
				case b.T == "(mk_slice 0 0 0 0)":
					t = and(eq(app("s_base", a.T), "0"), eq(app("s_len", a.T), "0"), eq(app("s_cap", a.T), "0"))
				default:
					t = eq(a.T, b.T)
				}
			}
			if e.Op == "!=" {
				t = not(t)
			}
			return boolVal(t), nil
		case "<", "<=", ">", ">=":
			if a.Sort == "String" {
				switch e.Op {
				case "<":
					return boolVal(app("str.<", a.T, b.T)), nil
				case "<=":
					return boolVal(app("str.<=", a.T, b.T)), nil
				case ">":
					return boolVal(app("str.<", b.T, a.T)), nil
				default:
					return boolVal(app("str.<=", b.T, a.T)), nil
				}
			}
			return boolVal(app(e.Op, a.T, b.T)), nil
		case "+":
			if a.Sort == "String" {
				return strVal(app("str.++", a.T, b.T)), nil
			}
			return Val{T: app("+", a.T, b.T), Sort: a.Sort, Typ: a.Typ}, nil
		case "++":
			return strVal(app("str.++", a.T, b.T)), nil
		case "-", "*":
			return Val{T: app(e.Op, a.T, b.T), Sort: a.Sort, Typ: a.Typ}, nil
		case "/":
			return intVal(app("div", a.T, b.T)), nil
		case "%":
			return intVal(app("mod", a.T, b.T)), nil
		}
	}
	return Val{}, fmt.Errorf("unsupported spec expression %s", e)
}

// coerceNil turns the untyped nil into the zero of the other operand's sort.
func (g *gen) coerceNil(a, b Val) (Val, Val) {
	isNil := func(v Val) bool {
		bt, ok := v.Typ.(*types.Basic)
		return ok && bt.Kind() == types.UntypedNil
	}
	if isNil(a) && !isNil(b) {
		a = Val{T: g.st.zeroSort(b.Sort), Sort: b.Sort, Typ: b.Typ}
	} else if isNil(b) && !isNil(a) {
		b = Val{T: g.st.zeroSort(a.Sort), Sort: a.Sort, Typ: a.Typ}
	}
	return a, b
}

func (g *gen) evalSel(env *specEnv, e *SExpr) (Val, error) {
	// package-qualified name?
	if e.Args[0].Op == "id" {
		if _, err := g.lookupName(env, e.Args[0].Name); err != nil {
			pn := e.Args[0].Name
			if p := g.findPkg(env, pn); p != nil {
				if o := p.Scope().Lookup(e.Name); o != nil {
					return g.objVal(o)
				}
			}
			return Val{}, err
		}
	}
	x, err := g.evalSpec1(env, e.Args[0])
	if err != nil {
		return Val{}, err
	}
	return g.selectField(x, e.Name)
}

func (g *gen) selectField(x Val, name string) (Val, error) {
	if x.Typ == nil {
		return Val{}, fmt.Errorf("field %s of untyped value", name)
	}
	obj, path, _ := types.LookupFieldOrMethod(x.Typ, true, nil, name)
	if obj == nil {
		// unexported field from another package: search manually
		obj, path = lookupFieldAnyPkg(x.Typ, name)
	}
	fv, ok := obj.(*types.Var)
	if !ok || fv == nil {
		return Val{}, fmt.Errorf("no field %s in %s", name, x.Typ)
	}
	cur := x
	for _, idx := range path {
		t := cur.Typ
		if p, ok := t.Underlying().(*types.Pointer); ok {
			// object with identity
			st, ok := structOf(p.Elem())
			if !ok {
				return Val{}, fmt.Errorf("selecting from pointer to non-struct %s", t)
			}
			f := st.Field(idx)
			sname := g.st.structName(p.Elem())
			if cur.Place != nil {
				np := *cur.Place
				np.Sub = append(append([]subStep(nil), cur.Place.Sub...), subStep{St: st, Name: g.st.sortOf(p.Elem()), Field: idx})
				pl := Val{T: cur.T, Sort: "Int", Place: &np}
				cur = g.load(pl, f.Type())
				cur.Typ = f.Type()
				continue
			}
			if _, isStruct := structOf(f.Type()); isStruct {
				// embedded/inner struct: keep as a reference to the inner object (typed as pointer)
				cur = Val{T: g.emb(sname, f.Name(), cur.T), Sort: "Int", Typ: types.NewPointer(f.Type())}
				continue
			}
			s := g.st.sortOf(f.Type())
			cur = Val{T: app("select", g.heapGet(fieldKey(sname, f.Name()), arr("Int", s)), cur.T), Sort: s, Typ: f.Type()}
			continue
		}
		st, ok := structOf(t)
		if !ok {
			return Val{}, fmt.Errorf("selecting %s from non-struct %s", name, t)
		}
		sn := g.st.sortOf(t)
		f := st.Field(idx)
		cur = Val{T: app(g.st.accessor(sn, idx), cur.T), Sort: g.st.sortOf(f.Type()), Typ: f.Type()}
	}
	return cur, nil
}

func lookupFieldAnyPkg(t types.Type, name string) (types.Object, []int) {
	if p, ok := t.Underlying().(*types.Pointer); ok {
		t = p.Elem()
	}
	st, ok := t.Underlying().(*types.Struct)
	if !ok {
		return nil, nil
	}
	for i := 0; i < st.NumFields(); i++ {
		if st.Field(i).Name() == name {
			return st.Field(i), []int{i}
		}
	}
	for i := 0; i < st.NumFields(); i++ {
		if st.Field(i).Embedded() {
			if o, p := lookupFieldAnyPkg(st.Field(i).Type(), name); o != nil {
				return o, append([]int{i}, p...)
			}
		}
	}
	return nil, nil
}

// derefIfInner: a value typed "pointer to struct" that came from selecting an inner struct
// behaves like the struct for further selection; nothing to do since selectField handles pointers.

func (g *gen) evalIdx(env *specEnv, e *SExpr) (Val, error) {
	x, err := g.evalSpec1(env, e.Args[0])
	if err != nil {
		return Val{}, err
	}
	i, err := g.evalSpec1(env, e.Args[1])
	if err != nil {
		return Val{}, err
	}
	if x.Typ == nil {
		return Val{}, fmt.Errorf("indexing untyped value in %s", e)
	}
	switch u := x.Typ.Underlying().(type) {
	case *types.Slice:
		es := g.st.sortOf(u.Elem())
		h := g.heapGet(elemKey(es), arr("Int", arr("Int", es)))
		return Val{T: app("select", app("select", h, app("s_base", x.T)), sidx(app("s_off", x.T), i.T)), Sort: es, Typ: u.Elem()}, nil
	case *types.Basic:
		return intVal(app("str.to_code", app("str.at", x.T, i.T))), nil
	case *types.Map:
		i, _ = g.coerceNil(i, Val{Sort: g.st.sortOf(u.Key()), Typ: u.Key()})
		return Val{T: g.mapGet(x, i.T), Sort: g.st.sortOf(u.Elem()), Typ: u.Elem()}, nil
	case *types.Array:
		return Val{T: app("select", x.T, i.T), Sort: g.st.sortOf(u.Elem()), Typ: u.Elem()}, nil
	}
	return Val{}, fmt.Errorf("cannot index %s", x.Typ)
}

func (g *gen) evalSlice(env *specEnv, e *SExpr) (Val, error) {
	x, err := g.evalSpec1(env, e.Args[0])
	if err != nil {
		return Val{}, err
	}
	lo := "0"
	if e.Args[1] != nil {
		v, err := g.evalSpec1(env, e.Args[1])
		if err != nil {
			return Val{}, err
		}
		lo = v.T
	}
	if x.Sort == "String" {
		hi := app("str.len", x.T)
		if e.Args[2] != nil {
			v, err := g.evalSpec1(env, e.Args[2])
			if err != nil {
				return Val{}, err
			}
			hi = v.T
		}
		return strVal(app("str.substr", x.T, lo, app("-", hi, lo))), nil
	}
	if x.Sort == "Slice" {
		hi := app("s_len", x.T)
		if e.Args[2] != nil {
			v, err := g.evalSpec1(env, e.Args[2])
			if err != nil {
				return Val{}, err
			}
			hi = v.T
		}
		return Val{T: app("mk_slice", app("s_base", x.T), sidx(app("s_off", x.T), lo), app("-", hi, lo), app("-", app("s_cap", x.T), lo)), Sort: "Slice", Typ: x.Typ}, nil
	}
	return Val{}, fmt.Errorf("cannot slice %s", x.Sort)
}

func (g *gen) evalArgs(env *specEnv, args []*SExpr) ([]Val, error) {
	var out []Val
	for _, a := range args {
		v, err := g.evalSpec1(env, a)
		if err != nil {
			return nil, err
		}
		out = append(out, v)
	}
	return out, nil
}

func (g *gen) evalCall(env *specEnv, e *SExpr) (Val, error) {
	// type-level builtins take unevaluated arguments
	switch e.Name {
	case "implements":
		if len(e.Args) != 2 || e.Args[1].Op != "str" {
			return Val{}, fmt.Errorf("implements(x, \"I\") expected")
		}
		x, err := g.evalSpec1(env, e.Args[0])
		if err != nil {
			return Val{}, err
		}
		it := g.resolveType(env, e.Args[1].Lit)
		if it == nil || !types.IsInterface(it) {
			return Val{}, fmt.Errorf("unknown interface %q", e.Args[1].Lit)
		}
		return boolVal(and(not(eq(app("i_tag", x.T), "0")), app(g.implFn(it), app("i_tag", x.T)))), nil
	case "typeIs", "dynType":
		if len(e.Args) != 2 || e.Args[1].Op != "str" {
			return Val{}, fmt.Errorf("typeIs(x, \"T\") expected")
		}
		x, err := g.evalSpec1(env, e.Args[0])
		if err != nil {
			return Val{}, err
		}
		t := g.resolveType(env, e.Args[1].Lit)
		if t == nil {
			return Val{}, fmt.Errorf("unknown type %q", e.Args[1].Lit)
		}
		return boolVal(eq(app("i_tag", x.T), fmt.Sprint(g.st.tagOf(t)))), nil
	case "addr":
		// addr(globalVar): the address of a package-level variable
		if len(e.Args) != 1 || e.Args[0].Op != "id" || env.pkg == nil {
			return Val{}, fmt.Errorf("addr(globalVar) expected")
		}
		if o, ok := env.pkg.Scope().Lookup(e.Args[0].Name).(*types.Var); ok {
			return Val{T: globalAddr(shortPkg(o.Pkg().Path()) + "." + o.Name()), Sort: "Int", Typ: types.NewPointer(o.Type())}, nil
		}
		return Val{}, fmt.Errorf("addr(): unknown variable %s", e.Args[0].Name)
	case "now":
		return intVal(g.now()), nil
	case "fnid":
		// fnid("pkg.func$1"): the identity of a function used as a value
		if len(e.Args) != 1 || e.Args[0].Op != "str" {
			return Val{}, fmt.Errorf("fnid(\"key\") expected")
		}
		key := e.Args[0].Lit
		if _, ok := g.e.funcs[key]; !ok {
			if env.pkg != nil {
				key = shortPkg(env.pkg.Path()) + "." + key
			}
			if _, ok := g.e.funcs[key]; !ok {
				return Val{}, fmt.Errorf("fnid(): unknown function %q", e.Args[0].Lit)
			}
		}
		return Val{T: funcID(key), Sort: "Int"}, nil
	case "the":
		// the("T"): the unique object of struct type T allocated by this function
		if len(e.Args) != 1 || e.Args[0].Op != "str" {
			return Val{}, fmt.Errorf("the(\"T\") expected")
		}
		var found *Val
		n := 0
		for _, b := range g.fn.Blocks {
			for _, ins := range b.Instrs {
				if a, ok := ins.(*ssa.Alloc); ok {
					pt := a.Type().(*types.Pointer).Elem()
					if nt, ok := types.Unalias(pt).(*types.Named); ok && nt.Obj().Name() == e.Args[0].Lit {
						n++
						if v, ok := g.vals[a]; ok {
							vv := v
							found = &vv
						}
					}
				}
			}
		}
		if n != 1 || found == nil {
			return Val{}, fmt.Errorf("the(%q): %d allocations of that type in %s", e.Args[0].Lit, n, g.key)
		}
		return *found, nil
	case "cast":
		if len(e.Args) != 2 || e.Args[1].Op != "str" {
			return Val{}, fmt.Errorf("cast(x, \"T\") expected")
		}
		x, err := g.evalSpec1(env, e.Args[0])
		if err != nil {
			return Val{}, err
		}
		t := g.resolveType(env, e.Args[1].Lit)
		if t == nil {
			return Val{}, fmt.Errorf("unknown type %q", e.Args[1].Lit)
		}
		if x.Sort == "Iface" && g.st.sortOf(t) != "Iface" {
			s := g.st.sortOf(t)
			return Val{T: g.unbox(app("i_val", x.T), s), Sort: s, Typ: t}, nil
		}
		x.Typ = t
		return x, nil
	case "emitted":
		if len(e.Args) != 1 || e.Args[0].Op != "id" {
			return Val{}, fmt.Errorf("emitted(logname) expected")
		}
		return intVal(g.heapGet("LOG|"+e.Args[0].Name+"|n", "Int")), nil
	case "emittedArg":
		// emittedArg(log, argIndex, recordIndex, "sortOrType")
		if len(e.Args) != 4 || e.Args[0].Op != "id" || e.Args[1].Op != "int" || e.Args[3].Op != "str" {
			return Val{}, fmt.Errorf("emittedArg(log, k, i, \"T\") expected")
		}
		i, err := g.evalSpec1(env, e.Args[2])
		if err != nil {
			return Val{}, err
		}
		t := g.resolveType(env, e.Args[3].Lit)
		s := g.st.sortOf(t)
		return Val{T: app("select", g.heapGet("LOG|"+e.Args[0].Name+"|"+e.Args[1].Lit, arr("Int", s)), i.T), Sort: s, Typ: t}, nil
	case "unbox":
		// unbox(x, "T"): payload of interface value x read as a T
		if len(e.Args) != 2 || e.Args[1].Op != "str" {
			return Val{}, fmt.Errorf("unbox(x, \"T\") expected")
		}
		x, err := g.evalSpec1(env, e.Args[0])
		if err != nil {
			return Val{}, err
		}
		t := g.resolveType(env, e.Args[1].Lit)
		if t == nil {
			return Val{}, fmt.Errorf("unknown type %q", e.Args[1].Lit)
		}
		s := g.st.sortOf(t)
		return Val{T: g.unbox(app("i_val", x.T), s), Sort: s, Typ: t}, nil
	}
	args, err := g.evalArgs(env, e.Args)
	if err != nil {
		return Val{}, err
	}
	if strings.HasPrefix(e.Name, "$") {
		gd := g.e.ghosts[e.Name]
		if gd == nil {
			return Val{}, fmt.Errorf("undeclared ghost map %s", e.Name)
		}
		if len(args) != 1 {
			return Val{}, fmt.Errorf("%s(key) expected", e.Name)
		}
		ks, _ := binderSort(g, env, Binder{Type: gd.KeyType})
		vs, vt := binderSort(g, env, Binder{Type: gd.ValType})
		k := g.ghostKey(args[0], ks)
		return Val{T: app("select", g.heapGet("G|"+e.Name, arr(ks, vs)), k), Sort: vs, Typ: vt}, nil
	}
	argn := func(n int) error {
		if len(args) != n {
			return fmt.Errorf("%s expects %d arguments", e.Name, n)
		}
		return nil
	}
	switch e.Name {
	case "len":
		if err := argn(1); err != nil {
			return Val{}, err
		}
		switch args[0].Sort {
		case "String":
			return intVal(app("str.len", args[0].T)), nil
		case "Slice":
			return intVal(app("s_len", args[0].T)), nil
		}
		return Val{}, fmt.Errorf("len of %s", args[0].Sort)
	case "cap":
		return intVal(app("s_cap", args[0].T)), nil
	case "base":
		return intVal(app("s_base", args[0].T)), nil
	case "has":
		if err := argn(2); err != nil {
			return Val{}, err
		}
		if args[0].Typ == nil {
			return Val{}, fmt.Errorf("has() on untyped map")
		}
		return boolVal(g.mapHas(args[0], args[1].T)), nil
	case "hasPrefix":
		return boolVal(app("str.prefixof", args[1].T, args[0].T)), nil
	case "hasSuffix":
		return boolVal(app("str.suffixof", args[1].T, args[0].T)), nil
	case "contains":
		return boolVal(app("str.contains", args[0].T, args[1].T)), nil
	case "indexOf":
		from := "0"
		if len(args) == 3 {
			from = args[2].T
		}
		return intVal(app("str.indexof", args[0].T, args[1].T, from)), nil
	case "substr":
		return strVal(app("str.substr", args[0].T, args[1].T, args[2].T)), nil
	case "replaceFirst":
		return strVal(app("str.replace", args[0].T, args[1].T, args[2].T)), nil
	case "toInt":
		return intVal(app("str.to_int", args[0].T)), nil
	case "fromInt":
		return strVal(app("str.from_int", args[0].T)), nil
	case "isDigits":
		return boolVal(and(app(">", app("str.len", args[0].T), "0"), app("str.in_re", args[0].T, "(re.+ (re.range \"0\" \"9\"))"))), nil
	case "bitand":
		// the same uninterpreted function that the code's own `x & y` on integers is translated to
		if err := argn(2); err != nil {
			return Val{}, err
		}
		g.declareFun("bit_and", []string{"Int", "Int"}, "Int")
		return intVal(app("bit_and", args[0].T, args[1].T)), nil
	case "ite":
		if err := argn(3); err != nil {
			return Val{}, err
		}
		a, b := g.coerceNil(args[1], args[2])
		return Val{T: ite(args[0].T, a.T, b.T), Sort: a.Sort, Typ: a.Typ}, nil
	case "tag":
		return intVal(app("i_tag", args[0].T)), nil
	case "private":
		g.declareFun("private", []string{"Int"}, "Bool")
		t := args[0].T
		if args[0].Sort == "Iface" {
			t = app("i_val", t)
		}
		return boolVal(app("private", t)), nil
	case "tnodeOrSentinel":
		// a syntax-node pointer handed between functions of the checkers: a tree node, or the all-zero node astcast.NilX
		g.declTnode()
		if args[0].Sort == "Int" && args[0].Typ != nil {
			if sent := g.sentinelFor(args[0].Typ); sent != "" {
				return boolVal(or(app("tnode", args[0].T), eq(args[0].T, sent))), nil
			}
		}
		return boolVal(app("tnode", args[0].T)), nil
	case "astDepth", "typeDepth":
		// well-founded measures: the height of a syntax-tree node below the root's / the nesting depth of a type literal
		// (theories ast-valid and gotypes state which selectors lead to strictly smaller values)
		fnm := strings.ToLower(e.Name)
		if !g.declared[fnm] {
			g.declareFun(fnm, []string{"Int"}, "Int")
			n := g.freshName("dp")
			g.assumeGlobal(fmt.Sprintf("(forall ((%s Int)) (! (>= (%s %s) 0) :pattern ((%s %s))))", n, fnm, n, fnm, n))
		}
		if args[0].Sort == "Iface" {
			return Val{T: app(fnm, app("i_val", args[0].T)), Sort: "Int"}, nil
		}
		return Val{T: app(fnm, args[0].T), Sort: "Int"}, nil
	case "rxDepth":
		if args[0].Typ == nil || !isRxExpr(args[0].Typ) {
			return Val{}, fmt.Errorf("rxDepth expects a syntax.Expr value, got sort %s", args[0].Sort)
		}
		g.declRx(args[0].Typ)
		return Val{T: app("rxdepth", args[0].T), Sort: "Int"}, nil
	case "tnode":
		// tnode(x): x is a node of a parsed and type-checked syntax tree (theory ast-valid)
		g.declTnode()
		if args[0].Sort == "Iface" {
			return boolVal(app("tnode", app("i_val", args[0].T))), nil
		}
		return boolVal(app("tnode", args[0].T)), nil
	case "rxvalid":
		// rxvalid(e): e is an expression of a successfully parsed regular expression (theory regex-syntax-valid)
		if args[0].Typ == nil || !isRxExpr(args[0].Typ) {
			if p := g.e.byPkg["github.com/quasilyte/regex/syntax"]; p != nil && p.Types != nil {
				if tn, ok := p.Types.Scope().Lookup("Expr").(*types.TypeName); ok {
					switch {
					case g.st.sortOf(tn.Type()) == args[0].Sort:
						args[0].Typ = tn.Type()
					case args[0].Sort == "Int":
						// the address of an Expr stored inside another object (re.Expr): read the value stored there
						args[0] = Val{T: g.loadStruct(args[0].T, tn.Type()), Sort: g.st.sortOf(tn.Type()), Typ: tn.Type()}
					}
				}
			}
		}
		if args[0].Typ == nil || !isRxExpr(args[0].Typ) {
			return Val{}, fmt.Errorf("rxvalid expects a syntax.Expr value, got sort %s", args[0].Sort)
		}
		g.declRx(args[0].Typ)
		return boolVal(app("rxvalid", args[0].T)), nil
	case "astlist":
		// astlist(s): the backing array of slice s is a list of the analysed (immutable) tree
		g.declareFun("astlist", []string{"Int"}, "Bool")
		if args[0].Sort == "Slice" {
			return boolVal(app("astlist", app("s_base", args[0].T))), nil
		}
		return boolVal(app("astlist", args[0].T)), nil
	case "nodeInTree":
		// a node of the parsed tree or a private copy of one (not a node built by the checker, not an astcast sentinel)
		g.declareFun("private", []string{"Int"}, "Bool")
		g.declTnode()
		if args[0].Sort == "Iface" {
			p := app("i_val", args[0].T)
			return boolVal(and(not(eq(app("i_tag", args[0].T), "0")), not(eq(p, "0")), or(app("tnode", p), app("private", p)))), nil
		}
		return boolVal(and(not(eq(args[0].T, "0")), or(app("tnode", args[0].T), app("private", args[0].T)))), nil
	case "cursorPrivate":
		g.declareFun("cursorPrivate", []string{"Int"}, "Bool")
		return boolVal(app("cursorPrivate", args[0].T)), nil
	case "seen":
		// seen(k): key k was already produced by the (last started) range over a map in this function
		if g.rangeSeen == "" {
			return Val{}, fmt.Errorf("seen(): no range over a map in %s", g.key)
		}
		return boolVal(app("select", g.heapGet(g.rangeSeen, arr(g.rangeSeenSort, "Bool")), args[0].T)), nil
	case "dynStr":
		if len(args) < 1 {
			return Val{}, fmt.Errorf("dynStr(f, args...) expected")
		}
		var sorts2, ts2 []string
		for _, a := range args {
			sorts2 = append(sorts2, a.Sort)
			ts2 = append(ts2, a.T)
		}
		name2 := "dyn_" + sanitize(strings.Join(sorts2[1:], "_")) + "_String"
		g.declareFun(name2, sorts2, "String")
		return strVal(app(name2, ts2...)), nil
	case "dyn":
		if len(args) < 1 {
			return Val{}, fmt.Errorf("dyn(f, args...) expected")
		}
		var sorts, ts []string
		for _, a := range args {
			sorts = append(sorts, a.Sort)
			ts = append(ts, a.T)
		}
		name := "dyn_" + sanitize(strings.Join(sorts[1:], "_")) + "_Bool"
		g.declareFun(name, sorts, "Bool")
		if !g.inAxiom {
			g.useAbstract("dyn")
		}
		return boolVal(app(name, ts...)), nil
	case "born":
		t := args[0].T
		if args[0].Sort == "Slice" {
			t = app("s_base", t)
		}
		return intVal(g.birth(t)), nil
	case "asString":
		// asString(b): the text a []byte value was converted from (ghost of the string->[]byte conversion)
		g.declareFun("bytes_as_string", []string{"Int"}, "String")
		return strVal(app("bytes_as_string", app("s_base", args[0].T))), nil
	case "payload":
		return Val{T: app("i_val", args[0].T), Sort: "Int"}, nil
	case "isNilIface":
		return boolVal(eq(app("i_tag", args[0].T), "0")), nil
	case "deref":
		if args[0].Typ == nil {
			return Val{}, fmt.Errorf("deref of untyped value")
		}
		p, ok := args[0].Typ.Underlying().(*types.Pointer)
		if !ok {
			return Val{}, fmt.Errorf("deref of non-pointer %s", args[0].Typ)
		}
		return g.load(args[0], p.Elem()), nil
	case "fresh":
		t := args[0].T
		if args[0].Sort == "Slice" {
			t = app("s_base", t)
		}
		return boolVal(and(not(eq(t, "0")), not(g.alive0Term(t)))), nil
	case "alive":
		t := args[0].T
		if args[0].Sort == "Slice" {
			t = app("s_base", t)
		}
		return boolVal(g.alive0Term(t)), nil
	case "logcount":
		if e.Args[0].Op != "id" {
			return Val{}, fmt.Errorf("logcount(name)")
		}
	case "min":
		return intVal(ite(app("<=", args[0].T, args[1].T), args[0].T, args[1].T)), nil
	case "max":
		return intVal(ite(app(">=", args[0].T, args[1].T), args[0].T, args[1].T)), nil
	}
	// spec functions: macro expansion / abstract functions
	if sf := g.findSpec(env, e.Name); sf != nil {
		if len(sf.Params) != len(args) {
			return Val{}, fmt.Errorf("%s expects %d arguments", e.Name, len(sf.Params))
		}
		// implicit conversion of a concrete pointer to an interface-typed parameter (as Go does at a call)
		for i, p := range sf.Params {
			ps, pt := binderSort(g, &specEnv{pkg: g.specPkg(sf, env)}, p)
			if ps == "Iface" && args[i].Sort == "Int" && args[i].Typ != nil {
				if _, isPtr := args[i].Typ.Underlying().(*types.Pointer); isPtr {
					args[i] = Val{T: app("mk_iface", fmt.Sprint(g.st.tagOf(args[i].Typ)), args[i].T), Sort: "Iface", Typ: pt}
				}
			}
		}
		if sf.Body == nil {
			var argSorts, ts []string
			for i, p := range sf.Params {
				s, _ := binderSort(g, env, p)
				argSorts = append(argSorts, s)
				a := args[i]
				if a.Sort != s {
					a2, _ := g.coerceNil(a, Val{Sort: s})
					a = a2
				}
				ts = append(ts, a.T)
			}
			rs, rt := binderSort(g, env, Binder{Type: sf.Ret})
			name := "spec_" + sanitize(sf.Name)
			g.declareFun(name, argSorts, rs)
			g.useAbstract(sf.Name)
			if len(ts) == 0 {
				return Val{T: name, Sort: rs, Typ: rt}, nil
			}
			return Val{T: app(name, ts...), Sort: rs, Typ: rt}, nil
		}
		if env.depth > 12 {
			return Val{}, fmt.Errorf("spec function %s: expansion too deep (recursive?)", e.Name)
		}
		if sf.Opaque {
			return g.opaqueCall(env, sf, args)
		}
		sub := &specEnv{vars: map[string]Val{}, st: env.st, old: env.old, fn: nil, pkg: g.specPkg(sf, env), depth: env.depth + 1, calleeMode: true}
		// quantifier-bound variables of the caller must stay visible inside bodies only through arguments
		for i, p := range sf.Params {
			a := args[i]
			if _, t := binderSort(g, env, p); t != nil && a.Typ == nil {
				a.Typ = t
			}
			sub.vars[p.Name] = a
		}
		return g.evalSpec1(sub, sf.Body)
	}
	return Val{}, fmt.Errorf("unknown spec function %s", e.Name)
}

// useAbstract pulls in the axioms that mention an abstract function (once).
func (g *gen) useAbstract(name string) {
	if g.assumed["abstract:"+name] {
		return
	}
	g.assumed["abstract:"+name] = true
	for _, ax := range g.e.axioms {
		if g.assumed["axiom:"+ax.Label] {
			continue
		}
		if !strings.Contains(ax.Src, name+"(") {
			continue
		}
		g.assumed["axiom:"+ax.Label] = true
		env := &specEnv{vars: map[string]Val{}, pkg: g.pkgTypes(), calleeMode: true}
		if ax.Pkg != "" {
			if p, ok := g.e.byPkg[repoMod+"/"+ax.Pkg]; ok && p.Types != nil {
				env.pkg = p.Types
			}
		}
		saveIn := g.inAxiom
		g.inAxiom = true
		t, err := g.evalBool(env, ax.E)
		g.inAxiom = saveIn
		if err != nil {
			g.unsupportedf("axiom %s: %v", ax.Label, err)
			continue
		}
		g.assumeGlobal(t)
	}
}

// placeOf evaluates an assigns-path to a heap location.
func (g *gen) placeOf(env *specEnv, e *SExpr) (*Place, error) {
	switch e.Op {
	case "sel":
		x, err := g.evalSpec(env, e.Args[0])
		if err != nil {
			return nil, err
		}
		if x.Typ == nil {
			return nil, fmt.Errorf("untyped base in %s", e)
		}
		p, ok := x.Typ.Underlying().(*types.Pointer)
		if !ok {
			return nil, fmt.Errorf("assigns path %s: base is not a pointer", e)
		}
		st, ok := structOf(p.Elem())
		if !ok {
			return nil, fmt.Errorf("assigns path %s: not a struct", e)
		}
		obj, path := lookupFieldAnyPkg(x.Typ, e.Name)
		if obj == nil || len(path) != 1 {
			return nil, fmt.Errorf("assigns path %s: field not found directly", e)
		}
		_ = st
		if _, inner := structOf(obj.Type()); inner {
			// a struct-valued field: the whole inner object
			return &Place{Kind: plField, Ref: g.emb(g.st.structName(p.Elem()), e.Name, x.T), Struct: g.st.structName(obj.Type()), Field: "*", Elem: obj.Type()}, nil
		}
		return &Place{Kind: plField, Ref: x.T, Struct: g.st.structName(p.Elem()), Field: e.Name, Elem: obj.Type()}, nil
	case "idx":
		x, err := g.evalSpec(env, e.Args[0])
		if err != nil {
			return nil, err
		}
		i, err := g.evalSpec(env, e.Args[1])
		if err != nil {
			return nil, err
		}
		if sl, ok := x.Typ.Underlying().(*types.Slice); ok {
			return &Place{Kind: plElem, Base: app("s_base", x.T), Idx: sidx(app("s_off", x.T), i.T), Elem: sl.Elem()}, nil
		}
	case "id":
		// package-level variable
		if env.pkg != nil {
			if o, ok := env.pkg.Scope().Lookup(e.Name).(*types.Var); ok {
				return &Place{Kind: plCell, Ref: globalAddr(shortPkg(o.Pkg().Path()) + "." + o.Name()), Elem: o.Type()}, nil
			}
		}
	case "call":
		if e.Name == "any" && len(e.Args) == 1 && e.Args[0].Op == "sel" {
			// any(T.f) / any(pkg.T.f): field f of every object of struct type T
			tn := ""
			switch x := e.Args[0].Args[0]; {
			case x.Op == "id":
				tn = x.Name
			case x.Op == "sel" && x.Args[0].Op == "id":
				tn = x.Args[0].Name + "." + x.Name
			}
			t := g.resolveType(env, tn)
			if t == nil {
				return nil, fmt.Errorf("any(): unknown type %q", tn)
			}
			obj, path := lookupFieldAnyPkg(t, e.Args[0].Name)
			if obj == nil || len(path) != 1 {
				return nil, fmt.Errorf("any(): no field %s in %s", e.Args[0].Name, t)
			}
			return &Place{Kind: plField, Ref: "*", Struct: g.st.structName(t), Field: e.Args[0].Name, Elem: obj.Type()}, nil
		}
		if e.Name == "object" && len(e.Args) == 1 {
			// object(p): every field of the struct p points to
			x, err := g.evalSpec(env, e.Args[0])
			if err != nil {
				return nil, err
			}
			if pt, ok := x.Typ.Underlying().(*types.Pointer); ok {
				if _, ok := structOf(pt.Elem()); ok {
					return &Place{Kind: plField, Ref: x.T, Struct: g.st.structName(pt.Elem()), Field: "*", Elem: pt.Elem()}, nil
				}
			}
			return nil, fmt.Errorf("object(): %s is not a pointer to a struct", e.Args[0])
		}
		if e.Name == "mapof" && len(e.Args) == 1 {
			x, err := g.evalSpec(env, e.Args[0])
			if err != nil {
				return nil, err
			}
			if _, ok := x.Typ.Underlying().(*types.Map); ok {
				return &Place{Kind: plMap, Ref: x.T, MapT: x.Typ}, nil
			}
		}
		if e.Name == "elems" && len(e.Args) == 1 {
			x, err := g.evalSpec(env, e.Args[0])
			if err != nil {
				return nil, err
			}
			if sl, ok := x.Typ.Underlying().(*types.Slice); ok {
				return &Place{Kind: plElem, Base: app("s_base", x.T), Idx: "*", Elem: sl.Elem()}, nil
			}
		}
	}
	return nil, fmt.Errorf("unsupported assigns path %s", e)
}

// frameObligations: every heap array written by the function equals its entry
// value except at the locations named by `assigns` and at objects allocated here.
func (g *gen) frameObligations(env *specEnv, pos token.Pos) {
	entryEnv := &specEnv{vars: env.vars, st: g.entry, old: g.entry, fn: g.fn, pkg: env.pkg}
	var places []*Place
	for _, a := range g.ctr.Assigns {
		p, err := g.placeOf(entryEnv, a)
		if err != nil {
			g.unsupportedf("assigns: %v", err)
			return
		}
		places = append(places, p)
	}
	var keys []string
	for k := range g.cur.heap {
		keys = append(keys, k)
	}
	sortStrings(keys)
	for _, k := range keys {
		fin := g.cur.heap[k]
		init := g.heapInit(k, g.heapSort[k])
		if fin == init {
			continue
		}
		expect := init
		for _, p := range places {
			switch {
			case p.Kind == plField && fieldKey(p.Struct, p.Field) == k:
				expect = app("store", expect, p.Ref, app("select", fin, p.Ref))
			case p.Kind == plCell && cellKey(g.st.sortOf(p.Elem)) == k:
				expect = app("store", expect, p.Ref, app("select", fin, p.Ref))
			case p.Kind == plMap && g.isMapKeyOf(p, k):
				expect = app("store", expect, p.Ref, app("select", fin, p.Ref))
			case p.Kind == plElem && elemKey(g.st.sortOf(p.Elem)) == k:
				if p.Idx == "*" {
					expect = app("store", expect, p.Base, app("select", fin, p.Base))
				} else {
					expect = app("store", expect, p.Base, app("store", app("select", expect, p.Base), p.Idx, app("select", app("select", fin, p.Base), p.Idx)))
				}
			}
		}
		for _, a := range g.allocs {
			expect = app("store", expect, a, app("select", fin, a))
		}
		// embedded objects of allocations
		if strings.HasPrefix(k, "MD|") || strings.HasPrefix(k, "MV|") || strings.HasPrefix(k, "F|") || strings.HasPrefix(k, "C|") || strings.HasPrefix(k, "E|") {
			for t := range g.embSeen {
				for _, a := range g.allocs {
					if strings.Contains(t, " "+a+")") {
						expect = app("store", expect, t, app("select", fin, t))
					}
				}
			}
		}
		g.oblige("frame", k, eq(fin, expect), pos, nil)
	}
}

func sortStrings(s []string) {
	for i := 1; i < len(s); i++ {
		for j := i; j > 0 && s[j] < s[j-1]; j-- {
			s[j], s[j-1] = s[j-1], s[j]
		}
	}
}

func (g *gen) isMapKeyOf(p *Place, k string) bool {
	ks, vs, _, _ := g.mapSorts(p.MapT)
	return k == mapDomKey(ks, vs) || k == mapValKey(ks, vs)
}

type opaqueDef struct {
	name string
	keys []string // heap keys the body reads, in order
	ret  string
	rtyp types.Type
}

// opaqueCall emits spec function sf as an uninterpreted SMT function of its arguments and of the heap
// arrays its body reads, defined by a quantified axiom with the application as trigger ("opaque/reveal").
func (g *gen) opaqueCall(env *specEnv, sf *SpecFunc, args []Val) (Val, error) {
	if g.opaques == nil {
		g.opaques = map[string]*opaqueDef{}
	}
	def := g.opaques[sf.Pkg+"|"+sf.Name]
	if def == nil {
		// pass A: discover the heap keys read by the body
		var psorts []string
		var ptypes []types.Type
		for i, p := range sf.Params {
			s, t := binderSort(g, env, p)
			if t == nil {
				t = args[i].Typ
			}
			psorts = append(psorts, s)
			ptypes = append(ptypes, t)
		}
		mk := func(names []string) *specEnv {
			sub := &specEnv{vars: map[string]Val{}, pkg: g.specPkg(sf, env), depth: env.depth + 1, calleeMode: true}
			for i, p := range sf.Params {
				sub.vars[p.Name] = Val{T: names[i], Sort: psorts[i], Typ: ptypes[i]}
			}
			return sub
		}
		var pn []string
		for _, p := range sf.Params {
			pn = append(pn, g.freshName("op_"+p.Name))
		}
		probe := &state{heap: map[string]string{}}
		g.readLog = map[string]bool{}
		saveCmds := len(g.cmds)
		var err error
		g.withState(probe, func() { _, err = g.evalSpec1(mk(pn), sf.Body) })
		if err != nil {
			g.readLog = nil
			return Val{}, fmt.Errorf("opaque %s: %v", sf.Name, err)
		}
		_ = saveCmds
		var keys []string
		for k := range g.readLog {
			keys = append(keys, k)
		}
		sortStrings(keys)
		g.readLog = nil
		// pass B: body over bound heap variables
		st := &state{heap: map[string]string{}}
		var binders, argSorts, appArgs []string
		for i := range sf.Params {
			binders = append(binders, "("+pn[i]+" "+psorts[i]+")")
			argSorts = append(argSorts, psorts[i])
			appArgs = append(appArgs, pn[i])
		}
		for i, k := range keys {
			hv := g.freshName(fmt.Sprintf("oh%d", i))
			st.heap[k] = hv
			binders = append(binders, "("+hv+" "+g.heapSort[k]+")")
			argSorts = append(argSorts, g.heapSort[k])
			appArgs = append(appArgs, hv)
		}
		var body Val
		g.withState(st, func() { body, err = g.evalSpec1(mk(pn), sf.Body) })
		if err != nil {
			return Val{}, fmt.Errorf("opaque %s: %v", sf.Name, err)
		}
		name := "opq_" + sanitize(sf.Name)
		g.declareFun(name, argSorts, body.Sort)
		g.assumeGlobal(fmt.Sprintf("(forall (%s) (! (= (%s %s) %s) :pattern ((%s %s))))", strings.Join(binders, " "), name, strings.Join(appArgs, " "), body.T, name, strings.Join(appArgs, " ")))
		_, rt := binderSort(g, env, Binder{Type: sf.Ret})
		def = &opaqueDef{name: "opq_" + sanitize(sf.Name), keys: keys, ret: body.Sort, rtyp: rt}
		g.opaques[sf.Pkg+"|"+sf.Name] = def
	}
	var ts []string
	for _, a := range args {
		ts = append(ts, a.T)
	}
	for _, k := range def.keys {
		ts = append(ts, g.heapGet(k, g.heapSort[k]))
	}
	return Val{T: app(def.name, ts...), Sort: def.ret, Typ: def.rtyp}, nil
}

// specPkg: names inside a spec function body resolve in the package that defines it.
func (g *gen) specPkg(sf *SpecFunc, env *specEnv) *types.Package {
	if sf.Pkg != "" {
		if p, ok := g.e.byPkg[repoMod+"/"+sf.Pkg]; ok && p.Types != nil {
			return p.Types
		}
	}
	return env.pkg
}

// ghostKey coerces a key value to the declared key sort of a ghost map (pointers into interfaces and back).
func (g *gen) ghostKey(v Val, ks string) string {
	if v.Sort == ks {
		return v.T
	}
	if ks == "Int" && v.Sort == "Iface" {
		return app("i_val", v.T)
	}
	if ks == "Iface" && v.Sort == "Int" && v.Typ != nil {
		return app("mk_iface", fmt.Sprint(g.st.tagOf(v.Typ)), v.T)
	}
	return v.T
}

func (g *gen) applySets(env *specEnv, ctr *Contract) {
	for _, st := range ctr.Sets {
		gd := g.e.ghosts[st.Name]
		if gd == nil {
			g.contractErr("sets", st.Name, fmt.Errorf("undeclared ghost map"))
			continue
		}
		k, err := g.evalSpec(env, st.Key)
		if err != nil {
			g.contractErr("sets", st.Name, err)
			continue
		}
		v, err := g.evalSpec(env, st.Value)
		if err != nil {
			g.contractErr("sets", st.Name, err)
			continue
		}
		ks, _ := binderSort(g, env, Binder{Type: gd.KeyType})
		vs, _ := binderSort(g, env, Binder{Type: gd.ValType})
		key := "G|" + st.Name
		g.heapSet(key, arr(ks, vs), app("store", g.heapGet(key, arr(ks, vs)), g.ghostKey(k, ks), v.T))
	}
}

// findPkg resolves a package qualifier deterministically: the current package's own imports first,
// then the repository's packages, then the lexicographically smallest path with that name.
func (g *gen) findPkg(env *specEnv, pn string) *types.Package {
	if env != nil && env.pkg != nil {
		if env.pkg.Name() == pn {
			return env.pkg
		}
		for _, imp := range env.pkg.Imports() {
			if imp.Name() == pn || imp.Path() == pn {
				return imp
			}
		}
	}
	var best *types.Package
	for _, p := range g.e.byPkg {
		if p.Types == nil {
			continue
		}
		if p.Types.Name() != pn && p.PkgPath != pn && shortPkg(p.PkgPath) != pn {
			continue
		}
		if best == nil {
			best = p.Types
			continue
		}
		bRepo := strings.HasPrefix(best.Path(), repoMod)
		pRepo := strings.HasPrefix(p.PkgPath, repoMod)
		switch {
		case pRepo && !bRepo:
			best = p.Types
		case pRepo == bRepo && (len(p.PkgPath) < len(best.Path()) || (len(p.PkgPath) == len(best.Path()) && p.PkgPath < best.Path())):
			best = p.Types
		}
	}
	return best
}

// findSpec: package-local spec functions (of the package the expression is evaluated in) shadow global ones;
// spec functions of other repository packages are visible too when the name is unambiguous.
func (g *gen) findSpec(env *specEnv, name string) *SpecFunc {
	if env != nil && env.pkg != nil {
		if m := g.e.pkgSpecs[shortPkg(env.pkg.Path())]; m != nil {
			if sf := m[name]; sf != nil {
				return sf
			}
		}
	}
	if sf := g.e.specs[name]; sf != nil {
		return sf
	}
	var found *SpecFunc
	var pkgs []string
	for p := range g.e.pkgSpecs {
		pkgs = append(pkgs, p)
	}
	sortStrings(pkgs)
	for _, p := range pkgs {
		if sf := g.e.pkgSpecs[p][name]; sf != nil {
			if found != nil && found.Src != sf.Src {
				return found // ambiguous: first in path order (deterministic)
			}
			if found == nil {
				found = sf
			}
		}
	}
	return found
}
