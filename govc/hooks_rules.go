package main

import (
	"fmt"
	"regexp"
	"sort"
	"strconv"
	"strings"
)

var apiCallRe = regexp.MustCompile(`([A-Za-z_][A-Za-z0-9_]*)\.([A-Z][A-Za-z0-9_]*)\b`)
var methodCallRe = regexp.MustCompile(`\.([A-Z][A-Za-z0-9_]*)\b`)

// recommendedAPIs: standard-library functions/methods named by the report or suggestion of a rule that do not occur in
// its patterns (code quoted from the analysed file is not a recommendation). Returns name -> minor version of first appearance.
func recommendedAPIs(api *stdAPI, r *irRule) map[string]int {
	out := map[string]int{}
	pats := strings.Join(r.Patterns, "\n")
	for _, tmpl := range []string{r.Suggest, r.Report} {
		for _, m := range apiCallRe.FindAllStringSubmatch(tmpl, -1) {
			k := m[1] + "." + m[2]
			if v, ok := api.funcs[k]; ok && api.pkgs[m[1]] && !strings.Contains(pats, k) {
				out[k] = v
			}
		}
		for _, m := range methodCallRe.FindAllStringSubmatch(tmpl, -1) {
			if v, ok := api.methods[m[1]]; ok && v > 0 && !strings.Contains(pats, "."+m[1]) {
				if _, isFunc := out[prefixBefore(tmpl, m[1])+"."+m[1]]; !isFunc {
					out["(method) "+m[1]] = v
				}
			}
		}
	}
	return out
}

func prefixBefore(tmpl, name string) string {
	i := strings.Index(tmpl, "."+name+"(")
	if i <= 0 {
		return ""
	}
	j := i
	for j > 0 && (tmpl[j-1] == '_' || tmpl[j-1] >= 'a' && tmpl[j-1] <= 'z' || tmpl[j-1] >= 'A' && tmpl[j-1] <= 'Z' || tmpl[j-1] >= '0' && tmpl[j-1] <= '9') {
		j--
	}
	return tmpl[j:i]
}

// versionGate: the largest N such that the rule fires only under GoVersion >= 1.N (0 if ungated).
func versionGate(r *irRule) int {
	g := 0
	for _, c := range r.Where.conjuncts() {
		if c.Op == "FilterGoVersionGreaterEqThanOp" {
			v := strings.TrimPrefix(c.Value, "1.")
			if n, err := strconv.Atoi(v); err == nil && n > g {
				g = n
			}
		}
	}
	return g
}

func dumpRules(repo string) {
	groups, err := readRuleData(repo)
	if err != nil {
		fmt.Println("error:", err)
		return
	}
	api, err := loadStdAPI()
	if err != nil {
		fmt.Println("api:", err)
	}
	for _, g := range groups {
		for i, r := range g.Rules {
			var ops []string
			for _, c := range r.Where.conjuncts() {
				ops = append(ops, c.Op+"("+c.Value+")")
			}
			fmt.Printf("%s#%d line %d\n  pat: %s\n  report: %s\n  suggest: %s\n  where: %s\n", g.Name, i+1, r.Line, strings.Join(r.Patterns, " | "), r.Report, r.Suggest, strings.Join(ops, " && "))
			if api != nil {
				rec := recommendedAPIs(api, r)
				var ks []string
				for k, v := range rec {
					ks = append(ks, fmt.Sprintf("%s@1.%d", k, v))
				}
				sort.Strings(ks)
				if len(ks) > 0 {
					fmt.Printf("  recommends: %s gate=1.%d\n", strings.Join(ks, ", "), versionGate(r))
				}
			}
		}
	}
}

// addLemma registers a solver-discharged obligation that is not tied to the body of a function: declarations,
// hypotheses (the stated semantics of the library functions involved) and a claim.
func (c *checkCtx) addLemma(name string, decls, hyps []string, claim string) {
	g := &gen{e: c.e, key: name, st: newSortTable(), assumed: map[string]bool{}, declared: map[string]bool{}, oblCount: map[string]int{}}
	g.cmds = append(g.cmds, decls...)
	for _, h := range hyps {
		g.cmds = append(g.cmds, "(assert "+h+")")
	}
	o := &Obligation{Name: name, Func: name, Kind: "lemma", Label: "lemma", cmdIdx: len(g.cmds), Guard: "true", Claim: claim}
	g.obls = append(g.obls, o)
	c.gens = append(c.gens, g)
	c.jobs = append(c.jobs, job{g, o})
	// the hypotheses must be satisfiable
	c.jobs = append(c.jobs, job{g, &Obligation{Name: name + "/cover/hypotheses", Func: name, Kind: "cover", cmdIdx: len(g.cmds), Guard: "true", Claim: "true", Cover: true}})
}

func (c *checkCtx) ruleData() ([]*irGroup, bool) {
	groups, err := readRuleData(c.e.repo)
	if err != nil {
		c.direct = append(c.direct, &directResult{Name: "rulesdata/readable", OK: false, Detail: err.Error()})
		return nil, false
	}
	return groups, true
}

func hasFilterArg(r *irRule, op, v, arg string) bool {
	for _, cj := range r.Where.conjuncts() {
		if cj.Op == op && cj.Value == v {
			for _, a := range cj.Args {
				if a.Value == arg {
					return true
				}
			}
		}
	}
	return false
}

// textIs: the rule fires only when the source text of variable v is exactly s
func textIs(r *irRule, v, s string) bool {
	for _, cj := range r.Where.conjuncts() {
		if cj.Op == "FilterEqOp" && len(cj.Args) == 2 && cj.Args[0].Op == "FilterVarTextOp" && cj.Args[0].Value == v && cj.Args[1].Op == "FilterStringOp" && cj.Args[1].Value == s {
			return true
		}
	}
	return false
}

var lenCmpRe = regexp.MustCompile(`^\$len\(\$[A-Za-z_]+\) (>=|<=|<|>|==|!=) (-?[0-9]+)$`)
var literalBuiltinRe = regexp.MustCompile(`(^|[^A-Za-z0-9_.$])(len|cap|new|append|copy)\(`)

func smtCmp(op, a, b string) string {
	switch op {
	case "==":
		return "(= " + a + " " + b + ")"
	case "!=":
		return "(not (= " + a + " " + b + "))"
	}
	return "(" + op + " " + a + " " + b + ")"
}

func smtInt(s string) string {
	if strings.HasPrefix(s, "-") {
		return "(- " + s[1:] + ")"
	}
	return s
}

// C12 on rule data: sloppyLen / offBy1
func init() {
	registerHook("C12", func(c *checkCtx) {
		groups, ok := c.ruleData()
		if !ok {
			return
		}
		found := map[string]bool{}
		for _, g := range groups {
			if g.Name != "sloppyLen" && g.Name != "offBy1" {
				continue
			}
			found[g.Name] = true
			for i, r := range g.Rules {
				base := fmt.Sprintf("rules/%s/rule#%d", g.Name, i+1)
				for j, pat := range r.Patterns {
					// the claim is about the builtin len: it must be a pattern variable constrained to the builtin object
					lit := literalBuiltinRe.MatchString(pat)
					usesLenVar := strings.Contains(pat, "$len(")
					okB := !lit && (!usesLenVar || (textIs(r, "len", "len") && hasFilterArg(r, "FilterVarObjectIsOp", "len", "Builtin")))
					if !lit && !usesLenVar {
						continue
					}
					c.direct = append(c.direct, &directResult{Name: fmt.Sprintf("%s/pattern#%d/len-is-the-builtin", base, j+1), OK: okB,
						Detail: fmt.Sprintf("pattern %q states a fact about len that holds only for the builtin; the callee must be a pattern variable filtered by Text == \"len\" && Object.Is(`Builtin`) (a user-defined len can return anything)", pat)})
					if m := lenCmpRe.FindStringSubmatch(pat); m != nil {
						cmp := smtCmp(m[1], "n", smtInt(m[2]))
						name := fmt.Sprintf("%s/pattern#%d/claim", base, j+1)
						switch {
						case strings.Contains(r.Report, "always true"):
							c.addLemma(name+"-always-true", []string{"(declare-fun n () Int)"}, []string{"(>= n 0)"}, cmp)
						case strings.Contains(r.Report, "always false"):
							c.addLemma(name+"-always-false", []string{"(declare-fun n () Int)"}, []string{"(>= n 0)"}, "(not "+cmp+")")
						case strings.Contains(r.Report, "can be len($x) == 0"):
							c.addLemma(name+"-equivalent-to-the-suggestion", []string{"(declare-fun n () Int)"}, []string{"(>= n 0)"}, "(= "+cmp+" (= n 0))")
						default:
							c.direct = append(c.direct, &directResult{Name: name + "-recognised", OK: false, Detail: "the report " + strconv.Quote(r.Report) + " makes a claim this check has no lemma for"})
						}
					} else if g.Name == "sloppyLen" {
						c.direct = append(c.direct, &directResult{Name: fmt.Sprintf("%s/pattern#%d/claim-recognised", base, j+1), OK: false, Detail: "pattern " + strconv.Quote(pat) + " is not of the form $len($x) <op> <int>: no lemma for its claim"})
					}
				}
				if g.Name == "offBy1" && strings.Contains(r.Report, "always panics") {
					// x[len(x)] is out of range for every slice value provided both occurrences of x denote the same value
					c.direct = append(c.direct, &directResult{Name: base + "/claim-always-panics/operand-is-pure", OK: r.requires("FilterVarPureOp", "x"),
						Detail: "`$x[len($x)]` evaluates $x twice; the claim needs both evaluations to yield the same slice (filter m[\"x\"].Pure)"})
					c.direct = append(c.direct, &directResult{Name: base + "/claim-always-panics/operand-is-a-slice", OK: hasFilterArg(r, "FilterVarTypeIsOp", "x", "[]$_"),
						Detail: "for a map, m[len(m)] is an ordinary lookup: the rule must be restricted to slices (filter m[\"x\"].Type.Is(`[]$_`))"})
					idx := "$len($x)"
					if len(r.Patterns) == 1 && r.Patterns[0] == "$x["+idx+"]" {
						c.addLemma(base+"/claim-always-panics/index-out-of-range", []string{"(declare-fun n () Int)", "(declare-fun i () Int)"}, []string{"(>= n 0)", "(= i n)"}, "(not (and (<= 0 i) (< i n)))")
					} else {
						c.direct = append(c.direct, &directResult{Name: base + "/claim-always-panics/pattern-recognised", OK: false, Detail: fmt.Sprintf("patterns %q: no lemma for this shape", r.Patterns)})
					}
				}
			}
		}
		for _, n := range []string{"sloppyLen", "offBy1"} {
			if !found[n] {
				c.direct = append(c.direct, &directResult{Name: "rules/" + n + "/present", OK: false, Detail: "rule group not found in the precompiled rule data"})
			}
		}
		c.assumed["rule engine: a rule fires only when every conjunct of its Where expression holds; filter semantics (Pure, Type.Is, Object.Is, Text) as documented by ruleguard (dependency, not verified)"] = true
		c.assumed["builtin len of a slice is non-negative and an index i is in range iff 0 <= i < len (Go specification)"] = true
	})
}

// C15 on rule data: a rule that recommends a standard-library function or method introduced after go1.13 fires only
// when the target version has it.
func init() {
	registerHook("C15", func(c *checkCtx) {
		groups, ok := c.ruleData()
		if !ok {
			return
		}
		api, err := loadStdAPI()
		if err != nil {
			c.direct = append(c.direct, &directResult{Name: "goroot-api/readable", OK: false, Detail: err.Error()})
			return
		}
		n := 0
		for _, g := range groups {
			for i, r := range g.Rules {
				rec := recommendedAPIs(api, r)
				var names []string
				for k := range rec {
					names = append(names, k)
				}
				sort.Strings(names)
				for _, k := range names {
					v := rec[k]
					if v <= 13 {
						continue
					}
					n++
					gate := versionGate(r)
					c.direct = append(c.direct, &directResult{Name: fmt.Sprintf("rules/%s/rule#%d/recommends-%s-only-from-go1.%d", g.Name, i+1, strings.ReplaceAll(strings.TrimPrefix(k, "(method) "), " ", ""), v), OK: gate >= v,
						Detail: fmt.Sprintf("the rule recommends %s, first available in go1.%d, but fires for target versions from go1.%d on (top-level GoVersion().GreaterEqThan filter: %s)", k, v, gate, map[bool]string{true: "1." + strconv.Itoa(gate), false: "none"}[gate > 0])})
				}
			}
		}
		c.extraEv["rules_recommending_api_newer_than_go1.13"] = n
		c.assumed["first-appearance versions of standard-library API are read from GOROOT/api/go1.*.txt of the installed toolchain; recommended API = pkg.Func / .Method tokens of the report and suggestion templates that do not occur in the rule's patterns"] = true
		c.assumed["rule engine: m.GoVersion().GreaterEqThan(v) holds iff the RunContext's GoVersion (handed over per file, proved in C15's contracts) is zero or >= v (dependency, not verified)"] = true
	})
}
