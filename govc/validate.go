package main

import (
	"fmt"
	"go/ast"
	"go/parser"
	"go/token"
	"go/types"
	"os"
	"path/filepath"
	"reflect"
	"runtime"
	"sort"
	"strings"
)

// validate-theory: the facts of theory ast-valid are assumptions of the proofs. This command confronts them with real
// trees: every Go file of GOROOT/src and of the repository (test data included) that parses without errors is walked and
// every fact the theory states (non-nil fields outside the nilable list, non-nil list elements, non-empty lists, an
// ellipsis implies an argument, switch bodies hold clauses) is evaluated on every node; for the type-checked packages of
// the repository the builtin-arity axiom is evaluated as well. A counterexample means the theory is wrong.
func validateTheory(e *Engine, dirs []string) int {
	if k := os.Getenv("VERIF_SELFTEST_FORGET_NILABLE"); k != "" {
		// selftest: pretend the theory claimed this field non-nil; the corpus must produce a counterexample
		delete(astNilable, k)
	}
	fset := token.NewFileSet()
	nfiles, nnodes := 0, 0
	bad := map[string]int{}
	example := map[string]string{}
	report := func(fact string, pos token.Pos) {
		bad[fact]++
		if _, ok := example[fact]; !ok {
			example[fact] = fset.Position(pos).String()
		}
	}
	typedOnly := false
	checkNode := func(n ast.Node) {
		nnodes++
		v := reflect.ValueOf(n)
		if v.Kind() != reflect.Ptr || v.IsNil() {
			return
		}
		sv := v.Elem()
		if sv.Kind() != reflect.Struct {
			return
		}
		tn := sv.Type().Name()
		for i := 0; i < sv.NumField(); i++ {
			f := sv.Type().Field(i)
			key := tn + "." + f.Name
			fv := sv.Field(i)
			switch fv.Kind() {
			case reflect.Ptr, reflect.Interface:
				if !astNilable[key] && fv.IsNil() {
					report("non-nil "+key, n.Pos())
				}
				if fv.Kind() == reflect.Interface && !fv.IsNil() {
					// no typed nil inside interface fields
					if iv := fv.Elem(); iv.Kind() == reflect.Ptr && iv.IsNil() {
						report("no typed nil in "+key, n.Pos())
					}
				}
			case reflect.Slice:
				if astNodeLists[key] {
					for j := 0; j < fv.Len(); j++ {
						el := fv.Index(j)
						if (el.Kind() == reflect.Ptr || el.Kind() == reflect.Interface) && el.IsNil() {
							report("non-nil elements of "+key, n.Pos())
						}
					}
				}
				if astNonEmptyLists[key] && fv.Len() == 0 {
					report("non-empty "+key, n.Pos())
				}
			}
		}
		switch x := n.(type) {
		case *ast.Ident:
			if strings.Contains(x.Name, ".") && x.Name != "." {
				report("Ident.Name contains no dot", n.Pos())
			}
		case *ast.CallExpr:
			if x.Ellipsis != token.NoPos && len(x.Args) == 0 {
				report("CallExpr.Ellipsis implies an argument", n.Pos())
			}
		case *ast.GenDecl:
			for _, sp := range x.Specs {
				ok := false
				switch sp.(type) {
				case *ast.TypeSpec:
					ok = x.Tok == token.TYPE
				case *ast.ImportSpec:
					ok = x.Tok == token.IMPORT
				case *ast.ValueSpec:
					ok = x.Tok == token.CONST || x.Tok == token.VAR
				}
				if !ok {
					report("GenDecl.Specs match the keyword", n.Pos())
				}
			}
		case *ast.DeclStmt:
			if _, ok := x.Decl.(*ast.GenDecl); !ok {
				report("DeclStmt.Decl is a GenDecl", n.Pos())
			}
		case *ast.Comment:
			if !(strings.HasPrefix(x.Text, "//") || (strings.HasPrefix(x.Text, "/*") && len(x.Text) >= 4)) {
				report("Comment.Text includes its marker", n.Pos())
			}
		case *ast.FuncDecl:
			if typedOnly && x.Recv != nil && len(x.Recv.List) != 1 {
				// guaranteed by the type checker, not by the parser: evaluated on type-checked packages only
				report("a method has exactly one receiver field", n.Pos())
			}
		case *ast.SwitchStmt:
			for _, s := range x.Body.List {
				if _, ok := s.(*ast.CaseClause); !ok {
					report("SwitchStmt.Body holds case clauses", n.Pos())
				}
			}
		case *ast.TypeSwitchStmt:
			switch a := x.Assign.(type) {
			case *ast.AssignStmt:
			case *ast.ExprStmt:
				if _, ok := a.X.(*ast.TypeAssertExpr); !ok {
					report("TypeSwitchStmt.Assign expression is a type assertion", n.Pos())
				}
			default:
				report("TypeSwitchStmt.Assign is an assignment or an expression statement", n.Pos())
			}
			for _, s := range x.Body.List {
				if _, ok := s.(*ast.CaseClause); !ok {
					report("TypeSwitchStmt.Body holds case clauses", n.Pos())
				}
			}
		case *ast.SelectStmt:
			for _, s := range x.Body.List {
				if _, ok := s.(*ast.CommClause); !ok {
					report("SelectStmt.Body holds comm clauses", n.Pos())
				}
			}
		}
	}
	for _, d := range dirs {
		filepath.WalkDir(d, func(p string, de os.DirEntry, err error) error {
			if err != nil || de.IsDir() || !strings.HasSuffix(p, ".go") {
				return nil
			}
			f, perr := parser.ParseFile(fset, p, nil, parser.ParseComments|parser.SkipObjectResolution)
			if perr != nil {
				return nil // the theory speaks about files that parse
			}
			nfiles++
			ast.Inspect(f, func(n ast.Node) bool {
				if n != nil {
					checkNode(n)
				}
				return true
			})
			return nil
		})
	}
	// typed facts on the loaded packages of the repository
	ncalls := 0
	if e != nil {
		typedOnly = true
		for _, p := range e.pkgs {
			if p.TypesInfo == nil || len(p.Errors) > 0 {
				continue
			}
			for _, f := range p.Syntax {
				ast.Inspect(f, func(n ast.Node) bool {
					if n != nil {
						checkNode(n)
					}
					return true
				})
			}
		}
		typedOnly = false
		arity := map[string][2]int{"append": {1, 1 << 30}, "new": {1, 1}, "len": {1, 1}, "cap": {1, 1}, "copy": {2, 2}}
		for _, p := range e.pkgs {
			if p.TypesInfo == nil {
				continue
			}
			for _, f := range p.Syntax {
				ast.Inspect(f, func(n ast.Node) bool {
					call, ok := n.(*ast.CallExpr)
					if !ok {
						return true
					}
					id, ok := call.Fun.(*ast.Ident)
					if !ok {
						return true
					}
					if _, isB := p.TypesInfo.ObjectOf(id).(*types.Builtin); !isB {
						return true
					}
					if a, ok := arity[id.Name]; ok {
						ncalls++
						if len(call.Args) < a[0] || len(call.Args) > a[1] {
							bad["builtin-call-arity "+id.Name]++
						}
					}
					return true
				})
			}
		}
	}
	fmt.Printf("theory ast-valid confronted with %d files, %d nodes, %d resolved builtin calls\n", nfiles, nnodes, ncalls)
	var ks []string
	for k := range bad {
		ks = append(ks, k)
	}
	sort.Strings(ks)
	for _, k := range ks {
		fmt.Printf("THEORY-COUNTEREXAMPLE %s: %d node(s), e.g. %s\n", k, bad[k], example[k])
	}
	if len(ks) > 0 {
		return 1
	}
	return 0
}

func defaultCorpus(repo string) []string {
	root := filepath.Join(runtime.GOROOT(), "src")
	if r, err := filepath.EvalSymlinks(root); err == nil {
		root = r
	}
	return []string{root, repo}
}
