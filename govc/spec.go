package main

import (
	"fmt"
	"strings"
	"unicode"
)

// Spec expression language (Gobra-flavoured), parsed from //@ comment lines.
//
//	forall i int, s string :: P      exists k :: P
//	P ==> Q   P <==> Q   || && !   == != < <= > >=   + - * / %
//	e.f  e[i]  e[i:j]  f(args)  old(e)  result  nil  true  false  123  "str"

type SExpr struct {
	Op      string // "forall","exists","==>","<==>","||","&&","!","neg","==",...,"+","-","*","/","%","sel","idx","slice","call","old","id","int","str","bool","nil","ite"
	Args    []*SExpr
	Name    string // id / sel field / call name
	Lit     string
	Binders []Binder
	Pos     int
}

type Binder struct {
	Name string
	Type string // "int","string","bool","ref" or a Go type name; default int
}

func (s *SExpr) String() string {
	if s == nil {
		return "<nil>"
	}
	switch s.Op {
	case "id":
		return s.Name
	case "int", "bool":
		return s.Lit
	case "str":
		return fmt.Sprintf("%q", s.Lit)
	case "nil":
		return "nil"
	case "sel":
		return s.Args[0].String() + "." + s.Name
	case "idx":
		return s.Args[0].String() + "[" + s.Args[1].String() + "]"
	case "slice":
		lo, hi := "", ""
		if s.Args[1] != nil {
			lo = s.Args[1].String()
		}
		if s.Args[2] != nil {
			hi = s.Args[2].String()
		}
		return s.Args[0].String() + "[" + lo + ":" + hi + "]"
	case "call":
		var as []string
		for _, a := range s.Args {
			as = append(as, a.String())
		}
		return s.Name + "(" + strings.Join(as, ", ") + ")"
	case "old":
		return "old(" + s.Args[0].String() + ")"
	case "!":
		return "!" + s.Args[0].String()
	case "neg":
		return "-" + s.Args[0].String()
	case "forall", "exists":
		var bs []string
		for _, b := range s.Binders {
			bs = append(bs, b.Name+" "+b.Type)
		}
		return "(" + s.Op + " " + strings.Join(bs, ", ") + " :: " + s.Args[0].String() + ")"
	}
	if len(s.Args) == 2 {
		return "(" + s.Args[0].String() + " " + s.Op + " " + s.Args[1].String() + ")"
	}
	return s.Op
}

type tok struct {
	kind string // "id","int","str","op","eof"
	text string
	pos  int
}

type specParser struct {
	src  string
	toks []tok
	p    int
}

func lexSpec(src string) ([]tok, error) {
	var toks []tok
	i := 0
	for i < len(src) {
		c := src[i]
		switch {
		case c == ' ' || c == '\t':
			i++
		case unicode.IsLetter(rune(c)) || c == '_' || c == '$':
			j := i
			for j < len(src) && (unicode.IsLetter(rune(src[j])) || unicode.IsDigit(rune(src[j])) || src[j] == '_' || src[j] == '$') {
				j++
			}
			toks = append(toks, tok{"id", src[i:j], i})
			i = j
		case unicode.IsDigit(rune(c)):
			j := i
			for j < len(src) && unicode.IsDigit(rune(src[j])) {
				j++
			}
			toks = append(toks, tok{"int", src[i:j], i})
			i = j
		case c == '"':
			j := i + 1
			var sb strings.Builder
			for j < len(src) && src[j] != '"' {
				if src[j] == '\\' && j+1 < len(src) {
					j++
					switch src[j] {
					case 'n':
						sb.WriteByte('\n')
					case 't':
						sb.WriteByte('\t')
					default:
						sb.WriteByte(src[j])
					}
				} else {
					sb.WriteByte(src[j])
				}
				j++
			}
			if j >= len(src) {
				return nil, fmt.Errorf("unterminated string at %d", i)
			}
			toks = append(toks, tok{"str", sb.String(), i})
			i = j + 1
		default:
			ops := []string{"<==>", "==>", "::", "==", "!=", "<=", ">=", "&&", "||", "++"}
			matched := false
			for _, o := range ops {
				if strings.HasPrefix(src[i:], o) {
					toks = append(toks, tok{"op", o, i})
					i += len(o)
					matched = true
					break
				}
			}
			if matched {
				continue
			}
			if strings.ContainsRune("()[]{}.,:<>+-*/%!", rune(c)) {
				toks = append(toks, tok{"op", string(c), i})
				i++
				continue
			}
			return nil, fmt.Errorf("unexpected character %q at %d in %q", c, i, src)
		}
	}
	toks = append(toks, tok{"eof", "", len(src)})
	return toks, nil
}

func parseSpec(src string) (*SExpr, error) {
	toks, err := lexSpec(src)
	if err != nil {
		return nil, err
	}
	p := &specParser{src: src, toks: toks}
	e, err := p.expr()
	if err != nil {
		return nil, err
	}
	if p.peek().kind != "eof" {
		return nil, fmt.Errorf("trailing input at %d (%q) in %q", p.peek().pos, p.peek().text, src)
	}
	return e, nil
}

func (p *specParser) peek() tok { return p.toks[p.p] }
func (p *specParser) next() tok { t := p.toks[p.p]; p.p++; return t }
func (p *specParser) isOp(s string) bool {
	t := p.peek()
	return t.kind == "op" && t.text == s
}
func (p *specParser) isID(s string) bool {
	t := p.peek()
	return t.kind == "id" && t.text == s
}
func (p *specParser) expect(s string) error {
	if !p.isOp(s) {
		return fmt.Errorf("expected %q at %d, got %q in %q", s, p.peek().pos, p.peek().text, p.src)
	}
	p.next()
	return nil
}

func (p *specParser) expr() (*SExpr, error) {
	if p.isID("forall") || p.isID("exists") {
		op := p.next().text
		var bs []Binder
		for {
			t := p.next()
			if t.kind != "id" {
				return nil, fmt.Errorf("binder name expected at %d in %q", t.pos, p.src)
			}
			b := Binder{Name: t.text, Type: "int"}
			star := ""
			if p.isOp("*") {
				p.next()
				star = "*"
			}
			if p.peek().kind == "id" {
				b.Type = star + p.next().text
				// qualified or pointer types: pkg.T
				for p.isOp(".") {
					p.next()
					b.Type += "." + p.next().text
				}
			}
			bs = append(bs, b)
			if p.isOp(",") {
				p.next()
				continue
			}
			break
		}
		if err := p.expect("::"); err != nil {
			return nil, err
		}
		body, err := p.expr()
		if err != nil {
			return nil, err
		}
		return &SExpr{Op: op, Binders: bs, Args: []*SExpr{body}}, nil
	}
	return p.impl()
}

func (p *specParser) impl() (*SExpr, error) {
	l, err := p.or()
	if err != nil {
		return nil, err
	}
	if p.isOp("==>") {
		p.next()
		r, err := p.implRHS()
		if err != nil {
			return nil, err
		}
		return &SExpr{Op: "==>", Args: []*SExpr{l, r}}, nil
	}
	if p.isOp("<==>") {
		p.next()
		r, err := p.implRHS()
		if err != nil {
			return nil, err
		}
		return &SExpr{Op: "<==>", Args: []*SExpr{l, r}}, nil
	}
	return l, nil
}

func (p *specParser) implRHS() (*SExpr, error) {
	if p.isID("forall") || p.isID("exists") {
		return p.expr()
	}
	return p.impl()
}

func (p *specParser) or() (*SExpr, error) {
	l, err := p.and()
	if err != nil {
		return nil, err
	}
	for p.isOp("||") {
		p.next()
		r, err := p.and()
		if err != nil {
			return nil, err
		}
		l = &SExpr{Op: "||", Args: []*SExpr{l, r}}
	}
	return l, nil
}

func (p *specParser) and() (*SExpr, error) {
	l, err := p.cmp()
	if err != nil {
		return nil, err
	}
	for p.isOp("&&") {
		p.next()
		r, err := p.cmp()
		if err != nil {
			return nil, err
		}
		l = &SExpr{Op: "&&", Args: []*SExpr{l, r}}
	}
	return l, nil
}

func (p *specParser) cmp() (*SExpr, error) {
	l, err := p.add()
	if err != nil {
		return nil, err
	}
	for _, o := range []string{"==", "!=", "<=", ">=", "<", ">"} {
		if p.isOp(o) {
			p.next()
			r, err := p.add()
			if err != nil {
				return nil, err
			}
			return &SExpr{Op: o, Args: []*SExpr{l, r}}, nil
		}
	}
	return l, nil
}

func (p *specParser) add() (*SExpr, error) {
	l, err := p.mul()
	if err != nil {
		return nil, err
	}
	for p.isOp("+") || p.isOp("-") || p.isOp("++") {
		o := p.next().text
		r, err := p.mul()
		if err != nil {
			return nil, err
		}
		l = &SExpr{Op: o, Args: []*SExpr{l, r}}
	}
	return l, nil
}

func (p *specParser) mul() (*SExpr, error) {
	l, err := p.unary()
	if err != nil {
		return nil, err
	}
	for p.isOp("*") || p.isOp("/") || p.isOp("%") {
		o := p.next().text
		r, err := p.unary()
		if err != nil {
			return nil, err
		}
		l = &SExpr{Op: o, Args: []*SExpr{l, r}}
	}
	return l, nil
}

func (p *specParser) unary() (*SExpr, error) {
	if p.isOp("!") {
		p.next()
		a, err := p.unary()
		if err != nil {
			return nil, err
		}
		return &SExpr{Op: "!", Args: []*SExpr{a}}, nil
	}
	if p.isOp("-") {
		p.next()
		a, err := p.unary()
		if err != nil {
			return nil, err
		}
		return &SExpr{Op: "neg", Args: []*SExpr{a}}, nil
	}
	return p.postfix()
}

func (p *specParser) postfix() (*SExpr, error) {
	e, err := p.primary()
	if err != nil {
		return nil, err
	}
	for {
		switch {
		case p.isOp("."):
			p.next()
			t := p.next()
			if t.kind != "id" {
				return nil, fmt.Errorf("field name expected at %d in %q", t.pos, p.src)
			}
			e = &SExpr{Op: "sel", Name: t.text, Args: []*SExpr{e}}
		case p.isOp("["):
			p.next()
			var lo, hi *SExpr
			if !p.isOp(":") {
				lo, err = p.expr()
				if err != nil {
					return nil, err
				}
			}
			if p.isOp(":") {
				p.next()
				if !p.isOp("]") {
					hi, err = p.expr()
					if err != nil {
						return nil, err
					}
				}
				if err := p.expect("]"); err != nil {
					return nil, err
				}
				e = &SExpr{Op: "slice", Args: []*SExpr{e, lo, hi}}
			} else {
				if err := p.expect("]"); err != nil {
					return nil, err
				}
				e = &SExpr{Op: "idx", Args: []*SExpr{e, lo}}
			}
		case p.isOp("("):
			// call: only on identifiers / qualified names
			name := ""
			switch e.Op {
			case "id":
				name = e.Name
			case "sel":
				if e.Args[0].Op == "id" {
					name = e.Args[0].Name + "." + e.Name
				}
			}
			if name == "" {
				return nil, fmt.Errorf("call of non-name at %d in %q", p.peek().pos, p.src)
			}
			p.next()
			var args []*SExpr
			for !p.isOp(")") {
				a, err := p.expr()
				if err != nil {
					return nil, err
				}
				args = append(args, a)
				if p.isOp(",") {
					p.next()
				} else {
					break
				}
			}
			if err := p.expect(")"); err != nil {
				return nil, err
			}
			if name == "old" && len(args) == 1 {
				e = &SExpr{Op: "old", Args: args}
			} else {
				e = &SExpr{Op: "call", Name: name, Args: args}
			}
		default:
			return e, nil
		}
	}
}

func (p *specParser) primary() (*SExpr, error) {
	t := p.next()
	switch t.kind {
	case "int":
		return &SExpr{Op: "int", Lit: t.text}, nil
	case "str":
		return &SExpr{Op: "str", Lit: t.text}, nil
	case "id":
		switch t.text {
		case "true", "false":
			return &SExpr{Op: "bool", Lit: t.text}, nil
		case "nil":
			return &SExpr{Op: "nil"}, nil
		}
		return &SExpr{Op: "id", Name: t.text}, nil
	case "op":
		if t.text == "(" {
			e, err := p.expr()
			if err != nil {
				return nil, err
			}
			if err := p.expect(")"); err != nil {
				return nil, err
			}
			return e, nil
		}
	}
	return nil, fmt.Errorf("unexpected token %q at %d in %q", t.text, t.pos, p.src)
}
