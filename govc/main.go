package main

import (
	"fmt"
	"os"
	"sort"
	"strings"

	"golang.org/x/tools/go/ssa"
)

const theoryDir = "/verif/theories"

var repoPatterns = []string{"./checkers/...", "./linter/...", "./cmd/..."}

func usage() {
	fmt.Fprintln(os.Stderr, "usage: govc dump <func> | vc <func> [-v] | check <property> <quick|thorough> | list")
	os.Exit(2)
}

// verify generates the VCs of one function (two passes: the first collects
// the heap keys each loop writes, the second cuts the loops with them).
func (e *Engine) verify(fn *ssa.Function, ctr *Contract, opts *genOptions) *gen {
	return e.verifyWith(fn, ctr, opts, nil)
}

func (e *Engine) verifyWith(fn *ssa.Function, ctr *Contract, opts *genOptions, setup func(*gen)) *gen {
	if ctr != nil && ctr.AstValid && setup == nil {
		// contracts verified under the theory ast-valid get the sweep's entry assumption (tree-node arguments);
		// the call sites discharge it in the C01 sweep
		cp := *ctr
		cp.Requires = append(append([]*Clause{}, ctr.Requires...), e.sweepContract(fn, "").Requires...)
		ctr = &cp
	}
	g1 := e.newGen(fn, ctr, nil)
	if setup != nil {
		setup(g1)
	}
	if opts != nil {
		g1.options = *opts
	}
	safety := g1.options.safety
	g1.run()
	loopMod := map[*ssa.BasicBlock]map[string]bool{}
	for _, li := range g1.loopList {
		m := map[string]bool{}
		for b := range li.blocks {
			for k := range g1.written[b] {
				m[k] = true
			}
		}
		if m["*"] {
			for k := range g1.heapSort {
				if strings.HasPrefix(k, "LOG|") || strings.HasPrefix(k, "G|") || strings.HasPrefix(k, "RG|") {
					continue
				}
				m[k] = true
			}
		}
		loopMod[li.header] = m
	}
	g2 := e.newGen(fn, ctr, loopMod)
	if opts != nil {
		g2.options = *opts
	}
	g2.options.safety = safety
	if setup != nil {
		setup(g2)
	}
	g2.knownSorts = g1.heapSort
	g2.run()
	return g2
}

func main() {
	if len(os.Args) < 2 {
		usage()
	}
	repo := os.Getenv("VERIF_REPO")
	if repo == "" {
		repo = "/repo"
	}
	switch os.Args[1] {
	case "rules":
		dumpRules(repo)
		return
	case "validate-theory":
		e, err := loadEngine(repo, repoPatterns)
		if err != nil {
			fmt.Fprintln(os.Stderr, "load:", err)
			os.Exit(2)
		}
		dirs := os.Args[2:]
		if len(dirs) == 0 {
			dirs = defaultCorpus(repo)
		}
		os.Exit(validateTheory(e, dirs))
	case "recursion":
		e, err := loadEngine(repo, repoPatterns)
		if err != nil {
			fmt.Fprintln(os.Stderr, "load:", err)
			os.Exit(2)
		}
		for _, comp := range recursiveFunctions(e) {
			var ks []string
			for _, f := range comp {
				ks = append(ks, funcKey(f))
			}
			fmt.Println(strings.Join(ks, "  <->  "))
		}
		return
	case "dump", "vc", "list":
		e, err := loadEngine(repo, repoPatterns)
		if err != nil {
			fmt.Fprintln(os.Stderr, "load:", err)
			os.Exit(2)
		}
		if err := e.loadContracts(theoryDir); err != nil {
			fmt.Fprintln(os.Stderr, "contracts:", err)
			os.Exit(2)
		}
		e.computeWrittenKeys()
		e.computeNeedPrivate()
		if os.Args[1] == "list" {
			for _, k := range e.sortedFuncKeys() {
				fmt.Println(k)
			}
			return
		}
		if len(os.Args) < 3 {
			usage()
		}
		var fns []*ssa.Function
		for _, k := range e.sortedFuncKeys() {
			if k == os.Args[2] || strings.HasSuffix(k, "."+os.Args[2]) {
				fns = append(fns, e.funcs[k])
			}
		}
		if len(fns) == 0 {
			fmt.Fprintln(os.Stderr, "no such function")
			os.Exit(2)
		}
		for _, fn := range fns {
			if os.Args[1] == "dump" {
				fn.WriteTo(os.Stdout)
				continue
			}
			verbose := false
			sweep := false
			frames := false
			for _, a := range os.Args[3:] {
				if a == "-v" {
					verbose = true
				}
				if a == "--sweep" {
					sweep = true
				}
				if a == "--frames" {
					sweep = true
					frames = true
				}
			}
			var g *gen
			if sweep {
				ctr := e.ctrs[funcKey(fn)]
				if ctr == nil {
					ctr = e.sweepContract(fn, "C01")
				} else {
					cp := *ctr
					cp.Requires = append(append([]*Clause{}, ctr.Requires...), e.sweepContract(fn, "C01").Requires...)
					ctr = &cp
				}
				var ics []*Contract
				if fn.Signature.Recv() != nil {
					for key, ic := range e.ctrs {
						if strings.HasSuffix(key, ".*."+fn.Name()) {
							ics = append(ics, ic)
						}
					}
				}
				if frames {
					ctr = e.sweepFrameContract(fn, "C05")
				}
				g = e.verifyWith(fn, ctr, &genOptions{safety: true}, func(g *gen) {
					g.astValid = true
					g.nilArgs = true
					g.options.safety = true
					g.ifaceCtrs = ics
					if frames {
						g.sweepFrames = "C05"
					}
				})
			} else {
				g = e.verify(fn, e.ctrs[funcKey(fn)], nil)
			}
			var jobs []job
			for _, o := range g.obls {
				jobs = append(jobs, job{g, o})
			}
			dischargeAll(jobs, 5000, true)
			fmt.Printf("== %s: %d obligations, unsupported: %v\n", g.key, len(g.obls), g.unsupported)
			for _, o := range g.obls {
				fmt.Printf("  %-8s %-10s %6.2fs  %s  [%s]\n", o.Result, o.Solver, o.TimeS, o.Name, o.Pos)
				if (o.Result != "unsat" || os.Getenv("VERIF_SHOW") == o.Name) && verbose {
					fmt.Println(o.Script)
					fmt.Println(o.Model)
				}
			}
			var as []string
			for a := range g.assumed {
				as = append(as, a)
			}
			sort.Strings(as)
			fmt.Println("  assumed:", as)
		}
	case "check":
		if len(os.Args) < 4 {
			usage()
		}
		os.Exit(runCheck(repo, os.Args[2], os.Args[3], os.Args[4:]))
	default:
		usage()
	}
}
