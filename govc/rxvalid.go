package main

import (
	"fmt"
	"go/types"
)

// Theory `regex-syntax-valid`: what github.com/quasilyte/regex/syntax documents about the trees its parser returns
// (operation.go: the number and meaning of Args per operation). Stated about syntax.Expr VALUES through the predicate
// rxvalid(e); a successful Parse returns a valid expression, the arguments of a valid expression are valid, functions
// of the checkers assume it of their syntax.Expr parameters and every call site proves it. The backing arrays of
// argument lists of valid expressions are treated as immutable (like the lists of the Go syntax tree).

const rxExprType = "github.com/quasilyte/regex/syntax.Expr"

func isRxExpr(t types.Type) bool {
	n, ok := types.Unalias(t).(*types.Named)
	return ok && n.Obj().Pkg() != nil && n.Obj().Pkg().Path()+"."+n.Obj().Name() == rxExprType
}

// arity classes by operation name (operation.go of the dependency)
var rxArity1 = []string{"OpStar", "OpPlus", "OpQuestion", "OpNonGreedy", "OpPossessive", "OpQuote", "OpEscapeChar", "OpEscapeMeta", "OpEscapeOctal",
	"OpEscapeHex", "OpEscapeUni", "OpCapture", "OpGroup", "OpAtomicGroup", "OpPositiveLookahead", "OpNegativeLookahead", "OpPositiveLookbehind",
	"OpNegativeLookbehind", "OpFlagOnlyGroup"}
var rxArity2 = []string{"OpCharRange", "OpRepeat", "OpNamedCapture", "OpGroupWithFlags"}
var rxArityGE2 = []string{"OpAlt", "OpLiteral"}
var rxArityGE1 = []string{"OpCharClass", "OpNegCharClass"}

func (g *gen) rxOpValue(name string) (string, bool) {
	p := g.e.byPkg["github.com/quasilyte/regex/syntax"]
	if p == nil || p.Types == nil {
		return "", false
	}
	c, ok := p.Types.Scope().Lookup(name).(*types.Const)
	if !ok {
		return "", false
	}
	return c.Val().ExactString(), true
}

// declRx declares rxvalid over the datatype of syntax.Expr and emits the theory (once).
func (g *gen) declRx(t types.Type) string {
	sn := g.st.sortOf(t)
	if g.declared["rxvalid"] {
		return sn
	}
	g.declareFun("rxvalid", []string{sn}, "Bool")
	g.declareFun("rxlist", []string{"Int"}, "Bool")
	g.assumed["theory regex-syntax-valid: number of Args per operation as documented in quasilyte/regex/syntax/operation.go; arguments of valid expressions are valid"] = true
	st, _ := structOf(t)
	opIdx, argsIdx := -1, -1
	for i := 0; i < st.NumFields(); i++ {
		switch st.Field(i).Name() {
		case "Op":
			opIdx = i
		case "Args":
			argsIdx = i
		}
	}
	if opIdx < 0 || argsIdx < 0 {
		return sn
	}
	x := g.freshName("rx")
	op := app(g.st.accessor(sn, opIdx), x)
	args := app(g.st.accessor(sn, argsIdx), x)
	ln := app("s_len", args)
	var facts []string
	opIn := func(names []string) string {
		var ds []string
		for _, n := range names {
			if v, ok := g.rxOpValue(n); ok {
				ds = append(ds, eq(op, v))
			}
		}
		return or(ds...)
	}
	facts = append(facts, implies(opIn(rxArity1), eq(ln, "1")))
	facts = append(facts, implies(opIn(rxArity2), eq(ln, "2")))
	facts = append(facts, implies(opIn(rxArityGE2), app(">=", ln, "2")))
	facts = append(facts, implies(opIn(rxArityGE1), app(">=", ln, "1")))
	if v, ok := g.rxOpValue("OpConcat"); ok {
		facts = append(facts, implies(eq(op, v), or(eq(ln, "0"), app(">=", ln, "2"))))
	}
	facts = append(facts, or(eq(ln, "0"), app("rxlist", app("s_base", args))))
	g.assumeGlobal(fmt.Sprintf("(forall ((%s %s)) (! (=> (rxvalid %s) %s) :pattern ((rxvalid %s))))", x, sn, x, and(facts...), x))
	// arguments of a valid expression are valid (entry array of the element sort; lists of valid expressions are immutable)
	es := arr("Int", arr("Int", sn))
	e0 := g.heapInit(elemKey(sn), es)
	i := g.freshName("rxi")
	el := app("select", app("select", e0, app("s_base", args)), sidx(app("s_off", args), i))
	g.assumeGlobal(fmt.Sprintf("(forall ((%s %s) (%s Int)) (! (=> (and (rxvalid %s) (<= 0 %s) (< %s %s)) (rxvalid %s)) :pattern (%s)))", x, sn, i, x, i, i, ln, el, el))
	// expressions are finite trees: an argument is strictly less deep than the expression it belongs to
	g.declareFun("rxdepth", []string{sn}, "Int")
	g.assumeGlobal(fmt.Sprintf("(forall ((%s %s)) (! (>= (rxdepth %s) 0) :pattern ((rxdepth %s))))", x, sn, x, x))
	g.assumeGlobal(fmt.Sprintf("(forall ((%s %s) (%s Int)) (! (=> (and (rxvalid %s) (<= 0 %s) (< %s %s)) (< (rxdepth %s) (rxdepth %s))) :pattern (%s)))", x, sn, i, x, i, i, ln, el, x, el))
	g.rxElemKey = elemKey(sn)
	return sn
}
