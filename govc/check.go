package main

import (
	"bufio"
	"encoding/json"
	"fmt"
	"go/types"
	"os"
	"path/filepath"
	"sort"
	"strconv"
	"strings"
	"time"

	"golang.org/x/tools/go/ssa"
)

const verifDir = "/verif"

type finding struct {
	Kind       string // finding | fixed
	Property   string
	Obligation string // name, may end with * as a prefix wildcard
	Text       string
}

func loadFindings() ([]finding, error) {
	f, err := os.Open(filepath.Join(verifDir, "known_findings.txt"))
	if err != nil {
		if os.IsNotExist(err) {
			return nil, nil
		}
		return nil, err
	}
	defer f.Close()
	var out []finding
	sc := bufio.NewScanner(f)
	for sc.Scan() {
		line := strings.TrimSpace(sc.Text())
		if line == "" || strings.HasPrefix(line, "#") {
			continue
		}
		var fd finding
		switch {
		case strings.HasPrefix(line, "finding:"):
			fd.Kind = "finding"
			line = strings.TrimSpace(line[len("finding:"):])
		case strings.HasPrefix(line, "fixed:"):
			fd.Kind = "fixed"
			line = strings.TrimSpace(line[len("fixed:"):])
		default:
			continue
		}
		for _, fld := range strings.Fields(line) {
			if strings.HasPrefix(fld, "property=") {
				fd.Property = fld[len("property="):]
			}
		}
		if i := strings.Index(line, "obligation="); i >= 0 {
			rest := line[i+len("obligation="):]
			// obligation names may contain spaces: they are terminated by " :: "
			if j := strings.Index(rest, " :: "); j >= 0 {
				fd.Obligation = strings.TrimSpace(rest[:j])
				fd.Text = strings.TrimSpace(rest[j+4:])
			} else {
				fd.Obligation = strings.TrimSpace(rest)
			}
		} else {
			fd.Text = line
		}
		out = append(out, fd)
	}
	return out, nil
}

func (f finding) matches(prop, obl string) bool {
	if f.Kind != "finding" || f.Obligation == "" {
		return false
	}
	if f.Property != prop && f.Property != "*" {
		return false
	}
	if strings.HasSuffix(f.Obligation, "*") {
		return strings.HasPrefix(obl, strings.TrimSuffix(f.Obligation, "*"))
	}
	return f.Obligation == obl
}

// checkCtx is what a property-specific generator (sweep, IR pass) can add to a run.
type checkCtx struct {
	e              *Engine
	prop           string
	tier           string
	jobs           []job
	gens           []*gen
	notes          []string
	assumed        map[string]bool
	fatal          []string // problems that make the run unusable (exit 2)
	funcs          map[string]bool
	extraEv        map[string]interface{}
	bounded        []string
	direct         []*directResult   // obligations decided by the generator itself (finite syntactic decisions)
	undecidedOK    map[string]string // frontier: obligation name -> reason (sweeps only)
	provedLedger   map[string]bool
	useLedger      bool
	strictNew      bool            // an undischarged obligation that is in neither ledger is a violation (frame sweep)
	frontierLedger map[string]bool // obligations known to be undecided on the unchanged tree
	frontierFuncs  map[string]bool // functions that have at least one such obligation
	provedFuncs    map[string]bool // functions with at least one proved obligation in the ledger
	generated      map[string]bool
}

// newRefutedInCleanFunction: the obligation is in neither ledger, the solver REFUTED it (a model exists under everything
// assumed - not a timeout), and the function it belongs to is known to the ledger and has no undecided obligation on the
// unchanged tree: it was entirely proved. Such an obligation is reported. New undecided obligations in functions that
// already have a frontier stay undecided (the region is imprecise anyway, and harmless edits rename its obligations).
func (c *checkCtx) newRefutedInCleanFunction(g *gen, o *Obligation) bool {
	if o.Result != "sat" || g == nil {
		return false
	}
	switch o.Kind {
	case "nil", "index", "slice", "typeassert", "div", "panic", "makeslice", "warn":
	default:
		if !(strings.HasPrefix(o.Kind, "call/") && strings.HasPrefix(o.Label, "warn-node")) {
			return false
		}
	}
	if c.frontierFuncs == nil {
		c.frontierFuncs = map[string]bool{}
		for name := range c.frontierLedger {
			for _, kind := range []string{"/nil/", "/index/", "/slice/", "/typeassert/", "/div/", "/panic/", "/makeslice/", "/nilarg/", "/call/", "/post/", "/loop#", "/warn/"} {
				if i := strings.Index(name, kind); i > 0 {
					c.frontierFuncs[name[:i]] = true
					break
				}
			}
		}
	}
	if c.frontierFuncs[g.key] {
		return false
	}
	if o.Kind == "warn" && strings.HasPrefix(o.Label, "format is a constant") {
		return true // a syntactic fact about the call itself: no caller's context could change it, new function or not
	}
	// only functions the ledger knows: a function that is new (an extracted helper, typically) is verified without the
	// context its callers provide, and a refutation there says more about missing preconditions than about the code - the
	// second harmless corpus had three such alarms against one seeded change the wider rule detected
	if c.provedFuncs == nil {
		c.provedFuncs = map[string]bool{}
		for name := range c.provedLedger {
			for _, kind := range []string{"/nil/", "/index/", "/slice/", "/typeassert/", "/div/", "/panic/", "/makeslice/", "/nilarg/", "/call/", "/post/", "/loop#", "/warn/"} {
				if i := strings.Index(name, kind); i > 0 {
					c.provedFuncs[name[:i]] = true
					break
				}
			}
		}
	}
	return c.provedFuncs[g.key]
}

// scratchFieldExists: name is "checkers.(T).f/scratch/..." - does type T of package checkers still have a field f?
func (c *checkCtx) scratchFieldExists(name string) bool {
	head := name
	if i := strings.Index(head, "/scratch/"); i >= 0 {
		head = head[:i]
	}
	l, r := strings.Index(head, "("), strings.Index(head, ")")
	if l < 0 || r < l || r+2 > len(head) {
		return true
	}
	tname, fname := head[l+1:r], head[r+2:]
	pkgShort := strings.TrimSuffix(head[:l], ".")
	p := c.e.byPkg[repoMod+"/"+pkgShort]
	if p == nil || p.Types == nil {
		return true
	}
	tn, ok := p.Types.Scope().Lookup(tname).(*types.TypeName)
	if !ok {
		return false
	}
	st, ok := tn.Type().Underlying().(*types.Struct)
	if !ok {
		return false
	}
	for i := 0; i < st.NumFields(); i++ {
		if st.Field(i).Name() == fname {
			return true
		}
	}
	return false
}

type directResult struct {
	Name   string
	OK     bool
	Detail string
}

type propHook func(c *checkCtx)

var propHooks = map[string][]propHook{}

func registerHook(prop string, h propHook) { propHooks[prop] = append(propHooks[prop], h) }

func hasProp(ps []string, p string) bool {
	for _, x := range ps {
		if x == p {
			return true
		}
	}
	return false
}

func runCheck(repo, prop, tier string, rest []string) int {
	start := time.Now()
	seed := 0
	if s := os.Getenv("VERIF_SEED"); s != "" {
		seed, _ = strconv.Atoi(s)
	}
	fail2 := func(format string, args ...interface{}) int {
		fmt.Printf("UNVERIFIABLE property=%s: %s\n", prop, fmt.Sprintf(format, args...))
		return 2
	}
	e, err := loadEngine(repo, repoPatterns)
	if err != nil {
		return fail2("cannot load repository: %v", err)
	}
	if err := e.loadContracts(theoryDir); err != nil {
		return fail2("cannot read contracts: %v", err)
	}
	rebound := e.rebindClosureContracts()
	e.computeWrittenKeys()
	e.computeNeedPrivate()
	e.computeNeedNode()
	findings, err := loadFindings()
	if err != nil {
		return fail2("known_findings.txt: %v", err)
	}
	c := &checkCtx{e: e, prop: prop, tier: tier, assumed: map[string]bool{}, funcs: map[string]bool{}, extraEv: map[string]interface{}{}, undecidedOK: map[string]string{}, provedLedger: map[string]bool{}}

	for _, r := range rebound {
		c.assumed[r] = true
	}
	// functions under explicit contract for this property
	var keys []string
	for k, ctr := range e.ctrs {
		if hasProp(ctr.Props, prop) {
			keys = append(keys, k)
		}
	}
	sort.Strings(keys)
	for _, k := range keys {
		ctr := e.ctrs[k]
		fn := e.funcs[k]
		if fn == nil && strings.Contains(k, ".*.") {
			continue // contract of an interface method: used at invoke sites and checked on every implementation
		}
		if fn == nil {
			// the function the contract speaks about no longer exists (renamed / removed / closure restructured):
			// the clause cannot be discharged; reported as an undischarged obligation, not as a pass
			c.direct = append(c.direct, &directResult{Name: k + "/contract/target-missing", OK: false,
				Detail: fmt.Sprintf("the contract at %s names function %s, which does not exist in the current tree; its obligations cannot be generated", ctr.File, k)})
			continue
		}
		if ctr.Trusted {
			c.assumed["trusted contract (body not verified): "+k] = true
			continue
		}
		g := e.verify(fn, ctr, nil)
		c.addGen(g, func(o *Obligation) bool {
			return len(o.Props) == 0 || hasProp(o.Props, prop)
		})
	}
	c.checkReadonlyGlobals()
	for _, h := range propHooks[prop] {
		h(c)
	}
	if len(c.fatal) > 0 {
		for _, f := range c.fatal {
			fmt.Printf("UNVERIFIABLE property=%s: %s\n", prop, f)
		}
		return 2
	}
	if len(c.jobs) == 0 && len(c.direct) == 0 {
		return fail2("no obligations generated")
	}

	// sweeps have a few hundred obligations that are known not to discharge (frontier): keep their limit short; the other
	// checks claim every obligation, so a generous limit protects them against a loaded machine
	timeout := 25000
	if c.useLedger {
		timeout = 10000
	}
	if tier == "thorough" {
		timeout = 30000
	}
	if t := os.Getenv("VERIF_TIMEOUT_MS"); t != "" {
		timeout, _ = strconv.Atoi(t)
	}
	dischargeAll(c.jobs, timeout, false)
	// second look: an obligation that is claimed (proved on the unchanged tree, or not under a ledger at all) and came back
	// INCONCLUSIVE (timeout / unknown - not a refutation) is run again, a few at a time and with three times the limit, before
	// it is reported: on a loaded machine sixteen solver processes per check compete for the cores
	if os.Getenv("VERIF_WRITE_LEDGER") == "" {
		var again []job
		for _, j := range c.jobs {
			if j.o.Cover || j.o.Result == "unsat" || j.o.Result == "sat" || j.o.Result == "contract-error" {
				continue
			}
			if c.useLedger && !c.provedLedger[j.o.Name] {
				continue
			}
			again = append(again, j)
		}
		if len(again) > 0 && len(again) <= 200 {
			for i := 0; i < len(again); i += 4 {
				k := i + 4
				if k > len(again) {
					k = len(again)
				}
				dischargeAll(again[i:k], 3*timeout, false)
			}
			c.extraEv["inconclusive_obligations_run_again"] = len(again)
		}
	}
	if os.Getenv("VERIF_WRITE_LEDGER") != "" && c.useLedger {
		writeLedger(prop, c.jobs)
	}

	// classify
	var discharged, total int
	bySolver := map[string]int{}
	solverTime := 0.0
	var violations, known, undecided, stale []string
	var samples []map[string]interface{}
	vacuityBad := []string{}
	covers := 0
	exit := 0
	replayDir := filepath.Join(verifDir, "replays", prop)
	os.MkdirAll(replayDir, 0o755)
	for _, j := range c.jobs {
		o := j.o
		solverTime += o.TimeS
		if f := os.Getenv("VERIF_LIST"); f != "" && strings.Contains(o.Name, f) {
			fmt.Printf("LIST %s %s %.2fs\n", o.Result, o.Name, o.TimeS)
		}
		if f := os.Getenv("VERIF_DUMP"); f != "" && strings.Contains(o.Name, f) {
			// debugging aid: the script and the solver's answer of matching obligations (never used by a registered command)
			dn := filepath.Join(os.TempDir(), "govc-dump")
			os.MkdirAll(dn, 0o755)
			os.WriteFile(filepath.Join(dn, fmt.Sprintf("%d.smt2", len(o.Name)*1000+int(o.TimeS*100)%1000)), []byte("; "+o.Name+"\n; "+o.Result+"\n"+o.Script+"\n; MODEL\n"+o.Model), 0o644)
		}
		if os.Getenv("VERIF_SLOW") != "" && o.TimeS > 1.0 {
			fmt.Printf("SLOW %.2fs %s %s %s\n", o.TimeS, o.Result, o.Solver, o.Name)
		}
		if o.Cover {
			covers++
			if o.Result == "unsat" {
				vacuityBad = append(vacuityBad, o.Name)
			}
			continue
		}
		total++
		isKnown := false
		for _, f := range findings {
			if f.matches(prop, o.Name) {
				isKnown = true
				if o.Result == "unsat" {
					stale = append(stale, o.Name)
				} else {
					known = append(known, o.Name)
					fmt.Printf("KNOWN-FINDING: property=%s %s :: %s\n", prop, o.Name, f.Text)
				}
				break
			}
		}
		if o.Result == "unsat" {
			discharged++
			bySolver[o.Solver]++
			if len(samples) < 6 {
				samples = append(samples, map[string]interface{}{"obligation": o.Name, "result": "proved", "solver": o.Solver, "time_s": round3(o.TimeS), "at": o.Pos})
			}
			continue
		}
		if isKnown {
			total-- // known findings are reported separately, not counted as claimed obligations
			continue
		}
		if c.useLedger && !c.provedLedger[o.Name] {
			// a sweep obligation that is not in the ledger of proved obligations: it is a violation only when it
			// replaces a proved obligation of the same function and kind that is no longer generated (edited code);
			// otherwise it is undecided and not claimed
			if c.frontierLedger[o.Name] || (!c.strictNew && !c.replacesProved(o) && !c.newRefutedInCleanFunction(j.g, o)) {
				undecided = append(undecided, o.Name)
				total--
				continue
			}
		}
		if reason, ok := c.undecidedOK[o.Name]; ok {
			undecided = append(undecided, o.Name+" ("+reason+")")
			total--
			continue
		}
		// a violation
		path := filepath.Join(replayDir, sanitize(o.Name)+".txt")
		suffix := writeReplay(path, prop, j.g, o, repo)
		fmt.Printf("VIOLATION property=%s replay=%s obligation=%q result=%s%s\n", prop, path, o.Name, o.Result, suffix)
		violations = append(violations, o.Name)
		exit = 1
	}
	// generator-decided obligations must not silently disappear (a deleted reset makes a field look like
	// configuration): every name recorded for the unchanged tree in ledger/<prop>.direct must still be generated
	if exp, err := os.ReadFile(filepath.Join(verifDir, "ledger", prop+".direct")); err == nil {
		have := map[string]bool{}
		for _, d := range c.direct {
			have[d.Name] = true
		}
		for _, name := range strings.Split(strings.TrimSpace(string(exp)), "\n") {
			name = strings.TrimSpace(name)
			if name == "" || strings.HasPrefix(name, "#") || have[name] {
				continue
			}
			// only the disappearance of a scratch-state obligation means something (the field is no longer recognised as
			// state that needs a reset) - and only while the field still exists. Loops, recursive functions, map ranges and
			// the like come and go with ordinary refactorings: when they vanish there is nothing left to prove.
			if !strings.Contains(name, "/scratch/") || !c.scratchFieldExists(name) {
				continue
			}
			c.direct = append(c.direct, &directResult{Name: name, OK: false, Detail: "this obligation is generated on the unchanged tree (ledger/" + prop + ".direct) but is no longer generated: the code it speaks about changed so that the generator does not recognise it any more (e.g. the only reset of a scratch field was removed)"})
		}
	}
	if os.Getenv("VERIF_WRITE_LEDGER") != "" {
		var names []string
		for _, d := range c.direct {
			names = append(names, d.Name)
		}
		sort.Strings(names)
		os.MkdirAll(filepath.Join(verifDir, "ledger"), 0o755)
		os.WriteFile(filepath.Join(verifDir, "ledger", prop+".direct"), []byte(strings.Join(names, "\n")+"\n"), 0o644)
	}
	for _, d := range c.direct {
		total++
		isKnown := false
		for _, f := range findings {
			if f.matches(prop, d.Name) {
				isKnown = true
				if d.OK {
					stale = append(stale, d.Name)
				} else {
					known = append(known, d.Name)
					fmt.Printf("KNOWN-FINDING: property=%s %s :: %s\n", prop, d.Name, f.Text)
				}
				break
			}
		}
		if d.OK {
			discharged++
			bySolver["generator (finite syntactic decision)"]++
			continue
		}
		if isKnown {
			total--
			continue
		}
		path := filepath.Join(replayDir, sanitize(d.Name)+".txt")
		os.WriteFile(path, []byte("obligation: "+d.Name+"\nproperty: "+prop+"\ndecided by: generator\n\n"+d.Detail+"\n"), 0o644)
		fmt.Printf("VIOLATION property=%s replay=%s obligation=%q no-failing-input-found\n", prop, path, d.Name)
		violations = append(violations, d.Name)
		exit = 1
	}
	for _, s := range stale {
		fmt.Printf("STALE-FINDING: property=%s %s is listed in known_findings.txt but is now proved\n", prop, s)
	}
	for _, u := range undecided {
		fmt.Printf("UNDECIDED: property=%s %s\n", prop, u)
	}
	if len(vacuityBad) > 0 {
		for _, v := range vacuityBad {
			fmt.Printf("UNVERIFIABLE property=%s: vacuity guard failed: %s is unsatisfiable\n", prop, v)
		}
		exit = 2
	}

	// evidence
	var fns []string
	for f := range c.funcs {
		fns = append(fns, f)
	}
	sort.Strings(fns)
	var assumptions []string
	for a := range c.assumed {
		assumptions = append(assumptions, a)
	}
	sort.Strings(assumptions)
	assumptions = append([]string{
		"Go integers are mathematical (no overflow obligations) except uint8 arithmetic (mod 256)",
		"SMT strings stand for Go strings (bytes vs code points not distinguished)",
		"goroutines, channels and deferred closures are not interpreted",
		"the VC generator (govc), go/ssa and the SMT solvers are trusted",
		"incoming pointers may alias each other; objects allocated in a function are distinct from every pointer known before the allocation",
	}, assumptions...)
	assumptions = append(assumptions, c.notes...)
	var unsup []string
	for _, g := range c.gens {
		for _, u := range g.unsupported {
			unsup = append(unsup, g.key+": "+u)
		}
	}
	cov := map[string]interface{}{
		"obligations":              total,
		"discharged":               discharged,
		"checker_cmd":              fmt.Sprintf("bin/govc check %s %s (go/ssa -> SMT-LIB; z3 5.1.0 first, then z3 4.8.12 | z3 5.1.0 | cvc5 1.0.3 raced, %d ms per obligation)", prop, tier, timeout),
		"trusted_base":             []string{"govc VC generator", "golang.org/x/tools/go/ssa v0.32.0", "z3 4.8.12", "z3 5.1.0", "cvc5 1.0.3", "theories under /verif/theories (assumed contracts of dependencies)"},
		"functions_under_contract": fns,
		"by_solver":                bySolver,
		"solver_time_s":            round3(solverTime),
		"known_findings":           known,
		"undecided_not_claimed":    undecided,
		"unmodelled_constructs":    unsup,
		"vacuity":                  map[string]interface{}{"covers_checked": covers, "covers_failed": vacuityBad},
		"samples":                  samples,
		"bounded":                  c.bounded,
		"violations":               violations,
	}
	for k, v := range c.extraEv {
		cov[k] = v
	}
	ev := map[string]interface{}{
		"property_id": prop,
		"tier":        tier,
		"seed":        seed,
		"level":       "proof",
		"coverage":    cov,
		"assumptions": assumptions,
		"wall_s":      round3(time.Since(start).Seconds()),
		"violations":  len(violations),
	}
	if r := os.Getenv("VERIF_REPO"); r == "" || r == "/repo" {
		// (a run against a scratch copy - seeded change, selftest - leaves the evidence alone: it describes /repo itself)
		os.MkdirAll(filepath.Join(verifDir, "evidence"), 0o755)
		b, _ := json.MarshalIndent(ev, "", " ")
		os.WriteFile(filepath.Join(verifDir, "evidence", prop+".json"), append(b, '\n'), 0o644)
	}
	fmt.Printf("property=%s tier=%s obligations=%d discharged=%d known_findings=%d undecided=%d violations=%d wall=%.1fs\n",
		prop, tier, total, discharged, len(known), len(undecided), len(violations), time.Since(start).Seconds())
	return exit
}

func round3(f float64) float64 { return float64(int(f*1000+0.5)) / 1000 }

// addGen registers the obligations of one verified function plus its vacuity covers.
func (c *checkCtx) addGen(g *gen, keep func(*Obligation) bool) {
	c.gens = append(c.gens, g)
	c.funcs[g.key] = true
	for a := range g.assumed {
		c.assumed[a] = true
	}
	n := 0
	for _, o := range g.obls {
		if keep == nil || keep(o) {
			c.jobs = append(c.jobs, job{g, o})
			n++
		}
	}
	// vacuity: the assumptions collected along the way must be satisfiable at every return
	if n > 0 {
		for i, o := range g.exitCovers() {
			_ = i
			c.jobs = append(c.jobs, job{g, o})
		}
	}
}

// addGenNoCover registers obligations of a sweep function (vacuity of the synthesised entry assumption is
// checked once per function through the same entry cover)
func (c *checkCtx) addGenNoCover(g *gen, keep func(*Obligation) bool) {
	c.gens = append(c.gens, g)
	for a := range g.assumed {
		c.assumed[a] = true
	}
	n := 0
	for _, o := range g.obls {
		if keep == nil || keep(o) {
			c.jobs = append(c.jobs, job{g, o})
			n++
		}
	}
	if n > 0 {
		c.funcs[g.key] = true
		for _, o := range g.exitCovers() {
			c.jobs = append(c.jobs, job{g, o})
		}
	}
}

// exitCovers: one reachability cover for the function entry (requires + theories consistent).
func (g *gen) exitCovers() []*Obligation {
	var out []*Obligation
	// entry: after requires
	idx := 0
	for i, cmd := range g.cmds {
		if strings.HasPrefix(cmd, "(define-fun edge_") || strings.HasPrefix(cmd, "(define-fun reach_") {
			idx = i
			break
		}
		idx = i + 1
	}
	out = append(out, &Obligation{Name: g.key + "/cover/entry", Func: g.key, Kind: "cover", cmdIdx: idx, Guard: "true", Claim: "true", Cover: true})
	// some return must be reachable under everything that was assumed on the way (assumed callee
	// postconditions, theories, invariants): a contradiction anywhere would make later proofs vacuous
	var rs []string
	for _, b := range g.fn.Blocks {
		if len(b.Instrs) == 0 {
			continue
		}
		if _, ok := b.Instrs[len(b.Instrs)-1].(*ssa.Return); ok {
			if r, ok := g.reach[b]; ok {
				rs = append(rs, r)
			}
		}
	}
	if len(rs) > 0 {
		out = append(out, &Obligation{Name: g.key + "/cover/some-return-reachable", Func: g.key, Kind: "cover", cmdIdx: len(g.cmds), Guard: or(rs...), Claim: "true", Cover: true})
	}
	return out
}

// writeReplay stores the failed obligation with the solver's output and, where the model can be
// turned into a call of the real function, the result of running it.
func writeReplay(path, prop string, g *gen, o *Obligation, repo string) string {
	var sb strings.Builder
	fmt.Fprintf(&sb, "obligation: %s\nproperty: %s\nfunction: %s\nat: %s\nresult: %s (solver %s, %.2fs)\n\n", o.Name, prop, o.Func, o.Pos, o.Result, o.Solver, o.TimeS)
	suffix := " no-failing-input-found"
	if o.Result == "sat" {
		if rep, ok := tryReplay(g, o, repo); rep != "" {
			sb.WriteString("== replay on the real code ==\n" + rep + "\n\n")
			if ok {
				suffix = ""
			}
		}
	}
	sb.WriteString("== solver output ==\n" + o.Model + "\n\n== SMT-LIB query ==\n" + o.Script + "\n")
	os.WriteFile(path, []byte(sb.String()), 0o644)
	return suffix
}

var _ = ssa.BuilderMode(0)

// checkReadonlyGlobals: every `readonly` global that a verified function relied on must be stored to only
// by the package initializer (a syntactic, exhaustive scan of the SSA of the whole repository).
func (c *checkCtx) checkReadonlyGlobals() {
	used := map[string]bool{}
	for _, g := range c.gens {
		for a := range g.assumed {
			if strings.HasPrefix(a, "readonly global ") {
				name := strings.Fields(a[len("readonly global "):])[0]
				used[name] = true
			}
		}
	}
	var names []string
	for n := range used {
		names = append(names, n)
	}
	sort.Strings(names)
	for _, name := range names {
		var writers []string
		for _, k := range c.e.sortedFuncKeys() {
			fn := c.e.funcs[k]
			for _, b := range fn.Blocks {
				for _, ins := range b.Instrs {
					st, ok := ins.(*ssa.Store)
					if !ok {
						continue
					}
					gl, ok := st.Addr.(*ssa.Global)
					if !ok || gl.Pkg == nil {
						continue
					}
					if shortPkg(gl.Pkg.Pkg.Path())+"."+gl.Name() == name && fn.Name() != "init" {
						writers = append(writers, k)
					}
				}
			}
		}
		c.direct = append(c.direct, &directResult{Name: "global/" + name + "/written-only-by-initializer", OK: len(writers) == 0, Detail: "stores to " + name + " outside the package initializer: " + strings.Join(writers, ", ")})
	}
}

// replacesProved: some obligation of the same function and kind is recorded as proved in the ledger but is not
// generated any more - the code at that place was edited and the edited version does not discharge.
func (c *checkCtx) replacesProved(o *Obligation) bool {
	if c.generated == nil {
		c.generated = map[string]bool{}
		for _, j := range c.jobs {
			c.generated[j.o.Name] = true
		}
	}
	// the same obligation (function, kind, label) is proved in the ledger at another occurrence: this is a new
	// program point of an obligation that holds everywhere else in this function on the unchanged tree
	base := o.Name
	if i := strings.LastIndex(base, "#"); i > 0 {
		base = base[:i]
	}
	for name := range c.provedLedger {
		if strings.HasPrefix(name, base+"#") {
			return true
		}
	}
	prefix := o.Func + "/" + o.Kind + "/"
	for name := range c.provedLedger {
		if strings.HasPrefix(name, prefix) && !c.generated[name] {
			return true
		}
	}
	return false
}

// rebindClosureContracts: contracts of function literals are keyed by ordinal (F$2$1). When a literal is added, removed or
// turned into a named function, the ordinals shift although nothing about the contracted code changed. A contract FITS a
// function when every identifier it mentions is a parameter, result, captured variable or named local of that function (or a
// package-level name). A closure contract whose key names no function, or a function it does not fit, is detached and placed
// on the one function it fits among the contract-less function literals of the same top-level function and the contract-less
// plain functions of the same package; if there is not exactly one, it stays where it was (and fails loudly there).
func (e *Engine) rebindClosureContracts() []string {
	var notes []string
	builtinNames := map[string]bool{"result": true, "nil": true, "true": true, "false": true, "recv": true}
	localNames := func(fn *ssa.Function) map[string]bool {
		names := map[string]bool{}
		for _, p := range fn.Params {
			names[p.Name()] = true
		}
		for _, fv := range fn.FreeVars {
			names[fv.Name()] = true
		}
		if res := fn.Signature.Results(); res != nil {
			for i := 0; i < res.Len(); i++ {
				names[res.At(i).Name()] = true
				names[fmt.Sprintf("result%d", i)] = true
			}
		}
		for i := 0; i < 8; i++ {
			names[fmt.Sprintf("arg%d", i)] = true
		}
		for _, b := range fn.Blocks {
			for _, ins := range b.Instrs {
				switch ins := ins.(type) {
				case *ssa.DebugRef:
					if o := ins.Object(); o != nil {
						names[o.Name()] = true
					}
				case *ssa.Alloc:
					if ins.Comment != "" {
						names[ins.Comment] = true
					}
				case *ssa.Phi:
					if ins.Comment != "" {
						names[ins.Comment] = true
					}
				}
			}
		}
		return names
	}
	idents := func(ctr *Contract) map[string]bool {
		out := map[string]bool{}
		var walk func(x *SExpr)
		walk = func(x *SExpr) {
			if x == nil {
				return
			}
			if x.Op == "id" && !strings.HasPrefix(x.Name, "$") && !strings.Contains(x.Name, ".") {
				out[x.Name] = true
			}
			for _, a := range x.Args {
				walk(a)
			}
		}
		for _, cl := range ctr.Requires {
			walk(cl.E)
		}
		for _, cl := range ctr.Ensures {
			walk(cl.E)
		}
		for _, a := range ctr.Assigns {
			walk(a)
		}
		for _, ls := range ctr.Loops {
			for _, cl := range ls.Invs {
				walk(cl.E)
			}
			for _, cl := range ls.Body {
				walk(cl.E)
			}
			if ls.Decreases != nil {
				walk(ls.Decreases.E)
			}
		}
		for _, cc := range ctr.Calls {
			walk(cc.E)
		}
		return out
	}
	pkgHas := func(fn *ssa.Function, id string) bool {
		top := fn
		for top.Parent() != nil {
			top = top.Parent()
		}
		if top.Pkg == nil {
			return false
		}
		if top.Pkg.Pkg.Scope().Lookup(id) != nil {
			return true
		}
		for _, imp := range top.Pkg.Pkg.Imports() {
			if imp.Name() == id {
				return true
			}
		}
		return false
	}
	fits := func(ctr *Contract, fn *ssa.Function) bool {
		names := localNames(fn)
		for id := range idents(ctr) {
			if names[id] || builtinNames[id] || pkgHas(fn, id) || e.specs[id] != nil {
				continue
			}
			return false
		}
		return true
	}
	// 1. detach closure contracts that are unbound or do not fit
	type detached struct {
		key string
		ctr *Contract
	}
	var loose []detached
	var keys []string
	for k := range e.ctrs {
		keys = append(keys, k)
	}
	sort.Strings(keys)
	for _, k := range keys {
		if !strings.Contains(k, "$") || strings.Contains(k, ".*.") {
			continue
		}
		fn, ok := e.funcs[k]
		if ok && fits(e.ctrs[k], fn) {
			continue
		}
		loose = append(loose, detached{k, e.ctrs[k]})
		delete(e.ctrs, k)
	}
	// 2. place each of them
	for _, d := range loose {
		root := d.key[:strings.Index(d.key, "$")]
		var cands []string
		for _, ck := range e.sortedFuncKeys() {
			if e.ctrs[ck] != nil {
				continue
			}
			fn := e.funcs[ck]
			isLiteralOfRoot := strings.HasPrefix(ck, root+"$")
			samePkgPlain := !strings.Contains(ck, "$") && fn.Signature.Recv() == nil && strings.LastIndex(ck, ".") == strings.LastIndex(root, ".") && ck[:strings.LastIndex(ck, ".")] == root[:strings.LastIndex(root, ".")]
			if !isLiteralOfRoot && !samePkgPlain {
				continue
			}
			if len(fn.Blocks) > 0 && fits(d.ctr, fn) && len(idents(d.ctr)) > 0 {
				cands = append(cands, ck)
			}
		}
		if len(cands) == 1 && cands[0] != d.key {
			cp := *d.ctr
			cp.Key = cands[0]
			e.ctrs[cands[0]] = &cp
			notes = append(notes, "contract written for "+d.key+" is applied to "+cands[0]+": the function literal moved (ordinals shifted, or it became a named function); it is the only contract-less candidate all of whose names fit the contract")
		} else {
			e.ctrs[d.key] = d.ctr // stays where it was: verified (and failing) against whatever is there, or reported as target-missing
		}
	}
	return notes
}
