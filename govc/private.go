package main

import (
	"fmt"
	"go/types"
	"strings"

	"golang.org/x/tools/go/ssa"
)

// "Private copies" (property C05): checkers may edit syntax nodes only inside a tree they copied themselves
// (astcopy) or built. The sweep tracks this with an uninterpreted predicate private(node):
//   - astcopy.X(n) returns a private node; children of private nodes are private (axiom on the entry heap);
//   - a write into a syntax node is allowed if the node is private (besides owned / freshly allocated);
//   - which parameters must be private is inferred: a function that writes through a parameter (or hands it to a
//     callee / to astutil.Apply with mutating callbacks) gets `requires private(param)`, and every call site
//     has to prove it. Dropping an astcopy therefore fails the precondition at the call that used the copy.

type privKey struct {
	fn  *ssa.Function
	idx int // parameter index; -1-k for free variable k
}

func isNodeTyped(t types.Type) bool { return isAstPtr(t) || isAstIface(t) }

var cursorMutators = map[string]bool{"Replace": true, "Delete": true, "InsertBefore": true, "InsertAfter": true}

func isCursorMutator(f *ssa.Function) bool {
	if f == nil || f.Signature.Recv() == nil {
		return false
	}
	return cursorMutators[f.Name()] && strings.HasSuffix(f.Signature.Recv().Type().String(), "astutil.Cursor")
}

// rootParam follows value flow backwards to a parameter / free variable of fn.
func rootParam(v ssa.Value, depth int) (ssa.Value, bool) {
	if depth > 12 {
		return nil, false
	}
	switch x := v.(type) {
	case *ssa.Parameter, *ssa.FreeVar:
		return x, true
	case *ssa.TypeAssert:
		return rootParam(x.X, depth+1)
	case *ssa.Extract:
		return rootParam(x.Tuple, depth+1)
	case *ssa.MakeInterface:
		return rootParam(x.X, depth+1)
	case *ssa.ChangeInterface:
		return rootParam(x.X, depth+1)
	case *ssa.ChangeType:
		return rootParam(x.X, depth+1)
	case *ssa.UnOp:
		return rootParam(x.X, depth+1) // load of a field of a node / of a captured variable
	case *ssa.FieldAddr:
		return rootParam(x.X, depth+1)
	case *ssa.IndexAddr:
		return rootParam(x.X, depth+1)
	case *ssa.Phi:
		for _, e := range x.Edges {
			if r, ok := rootParam(e, depth+1); ok {
				return r, true
			}
		}
	}
	return nil, false
}

func paramIndex(fn *ssa.Function, v ssa.Value) (int, bool) {
	for i, p := range fn.Params {
		if ssa.Value(p) == v {
			return i, true
		}
	}
	for i, p := range fn.FreeVars {
		if ssa.Value(p) == v {
			return -1 - i, true
		}
	}
	return 0, false
}

func closureMutates(fn *ssa.Function, seen map[*ssa.Function]bool) bool {
	if fn == nil || seen[fn] {
		return false
	}
	seen[fn] = true
	for _, b := range fn.Blocks {
		for _, ins := range b.Instrs {
			if call, ok := ins.(ssa.CallInstruction); ok {
				callee := call.Common().StaticCallee()
				if isCursorMutator(callee) {
					return true
				}
				if callee != nil && len(callee.Blocks) > 0 {
					for _, p := range callee.Params {
						if strings.HasSuffix(p.Type().String(), "astutil.Cursor") && closureMutates(callee, seen) {
							return true
						}
					}
				}
			}
		}
	}
	return false
}

// computeNeedPrivate: fixpoint over the repository's functions.
func (e *Engine) computeNeedPrivate() {
	e.needPrivate = map[privKey]bool{}
	nodeWrite := func(addr ssa.Value) (ssa.Value, bool) {
		// a store into a field of a go/ast node
		fa, ok := addr.(*ssa.FieldAddr)
		if !ok {
			if ia, ok := addr.(*ssa.IndexAddr); ok {
				// element of a node list: the list was loaded from a node field
				if u, ok := ia.X.(*ssa.UnOp); ok {
					if fa2, ok := u.X.(*ssa.FieldAddr); ok && isAstPtr(fa2.X.Type()) {
						return fa2.X, true
					}
				}
			}
			return nil, false
		}
		if !isAstPtr(fa.X.Type()) {
			return nil, false
		}
		return fa.X, true
	}
	changed := true
	for changed {
		changed = false
		mark := func(fn *ssa.Function, v ssa.Value) {
			r, ok := rootParam(v, 0)
			if !ok {
				return
			}
			idx, ok := paramIndex(fn, r)
			if !ok {
				return
			}
			var t types.Type
			if idx >= 0 {
				t = fn.Params[idx].Type()
			} else {
				t = fn.FreeVars[-1-idx].Type().(*types.Pointer).Elem()
			}
			if !isNodeTyped(t) {
				return
			}
			k := privKey{fn, idx}
			if !e.needPrivate[k] {
				e.needPrivate[k] = true
				changed = true
			}
		}
		for _, key := range e.sortedFuncKeys() {
			fn := e.funcs[key]
			if !inSweep(key) {
				continue
			}
			for _, b := range fn.Blocks {
				for _, ins := range b.Instrs {
					switch ins := ins.(type) {
					case *ssa.Store:
						if node, ok := nodeWrite(ins.Addr); ok {
							if _, isAlloc := node.(*ssa.Alloc); !isAlloc {
								mark(fn, node)
							}
						}
					case ssa.CallInstruction:
						c := ins.Common()
						callee := c.StaticCallee()
						if callee == nil {
							continue
						}
						if extKey(callee) == "golang.org/x/tools/go/ast/astutil.Apply" && len(c.Args) == 3 {
							mut := false
							for _, a := range c.Args[1:] {
								if mc, ok := unwrapFn(a).(*ssa.MakeClosure); ok && closureMutates(mc.Fn.(*ssa.Function), map[*ssa.Function]bool{}) {
									mut = true
								}
							}
							if mut {
								mark(fn, c.Args[0])
							}
							continue
						}
						for j := range callee.Params {
							if e.needPrivate[privKey{callee, j}] && j < len(c.Args) {
								mark(fn, c.Args[j])
							}
						}
						if mc, ok := c.Value.(*ssa.MakeClosure); ok {
							for k, bnd := range mc.Bindings {
								if e.needPrivate[privKey{callee, -1 - k}] {
									if u, ok := bnd.(*ssa.Alloc); ok {
										_ = u // captured local: its value flows from whatever was stored; not followed
									} else {
										mark(fn, bnd)
									}
								}
							}
						}
					}
				}
			}
		}
	}
}

// privateRequires: the inferred preconditions of fn, as spec clauses.
func (e *Engine) privateRequires(fn *ssa.Function) []string {
	var out []string
	if walkerEntry[fn.Name()] && fn.Signature.Recv() != nil {
		// entry points receive nodes of the real tree: nothing may be assumed private there
		return nil
	}
	for i, p := range fn.Params {
		if e.needPrivate[privKey{fn, i}] && p.Name() != "" && p.Name() != "_" {
			out = append(out, fmt.Sprintf("@written-node-is-a-private-copy-%s private(%s)", p.Name(), p.Name()))
		}
	}
	for i, fv := range fn.FreeVars {
		if e.needPrivate[privKey{fn, -1 - i}] {
			out = append(out, fmt.Sprintf("@written-node-is-a-private-copy-%s private(%s)", fv.Name(), fv.Name()))
		}
	}
	for _, p := range fn.Params {
		if strings.HasSuffix(p.Type().String(), "astutil.Cursor") && closureMutates(fn, map[*ssa.Function]bool{}) {
			out = append(out, fmt.Sprintf("@cursor-walks-a-private-copy cursorPrivate(%s)", p.Name()))
		}
	}
	return out
}

func unwrapFn(v ssa.Value) ssa.Value {
	for {
		ct, ok := v.(*ssa.ChangeType)
		if !ok {
			return v
		}
		v = ct.X
	}
}

// computeNeedNode: parameters that end up as the position node of a diagnostic must be non-nil nodes of the
// analysed tree; the requirement is pushed to the call sites of warn helpers (same scheme as needPrivate).
func (e *Engine) computeNeedNode() {
	e.needNode = map[privKey]bool{}
	changed := true
	for changed {
		changed = false
		mark := func(fn *ssa.Function, v ssa.Value) {
			r, ok := rootParam(v, 0)
			if !ok {
				return
			}
			// only direct flows (no field loads): the parameter itself is the node
			switch v.(type) {
			case *ssa.Parameter, *ssa.FreeVar, *ssa.MakeInterface, *ssa.ChangeInterface, *ssa.TypeAssert, *ssa.Extract:
			default:
				return
			}
			if u, isU := r.(*ssa.FreeVar); isU {
				_ = u
				return
			}
			idx, ok := paramIndex(fn, r)
			if !ok || idx < 0 {
				return
			}
			if !isNodeTyped(fn.Params[idx].Type()) {
				return
			}
			k := privKey{fn, idx}
			if !e.needNode[k] {
				e.needNode[k] = true
				changed = true
			}
		}
		for _, key := range e.sortedFuncKeys() {
			fn := e.funcs[key]
			if !strings.HasPrefix(key, "checkers.") {
				continue
			}
			for _, b := range fn.Blocks {
				for _, ins := range b.Instrs {
					call, ok := ins.(ssa.CallInstruction)
					if !ok {
						continue
					}
					c := call.Common()
					callee := c.StaticCallee()
					if callee == nil {
						continue
					}
					if nodeArg, _, w := isWarnFunc(callee); w && nodeArg >= 0 && nodeArg < len(c.Args) {
						mark(fn, c.Args[nodeArg])
						continue
					}
					for j := range callee.Params {
						if e.needNode[privKey{callee, j}] && j < len(c.Args) {
							mark(fn, c.Args[j])
						}
					}
				}
			}
		}
	}
}

func (e *Engine) nodeRequires(fn *ssa.Function) []string {
	var out []string
	if walkerEntry[fn.Name()] && fn.Signature.Recv() != nil {
		return nil
	}
	for i, p := range fn.Params {
		if e.needNode[privKey{fn, i}] && p.Name() != "" && p.Name() != "_" {
			out = append(out, fmt.Sprintf("@warn-node-%s nodeInTree(%s)", p.Name(), p.Name()))
		}
	}
	return out
}


// sentinelParam: is parameter idx of fn assumed to be "a tree node or the all-zero node astcast.NilX" (instead of "a tree
// node")? The set is part of the committed ledger (ledger/C01.sentinel-params): it lists the parameters for which some call
// site could not prove the strict form on the unchanged tree. Callee assumption and call-site guarantee always use the same form.
func (e *Engine) sentinelParam(fn *ssa.Function, idx int) bool {
	if e.sentParamSet == nil {
		e.sentParamSet = map[string]bool{}
		for k := range loadLedger("C01", "sentinel-params") {
			e.sentParamSet[k] = true
		}
	}
	return e.sentParamSet[fmt.Sprintf("%s#%d", funcKey(fn), idx)]
}


// nilableParam: syntax-node pointer parameters for which some call site could not prove "non-nil" on the unchanged tree
// (ledger/C01.nilable-params): the function is verified without that assumption, and no call site is asked for it.
func (e *Engine) nilableParam(fn *ssa.Function, idx int) bool {
	if e.nilParamSet == nil {
		e.nilParamSet = map[string]bool{}
		for k := range loadLedger("C01", "nilable-params") {
			e.nilParamSet[k] = true
		}
	}
	return e.nilParamSet[fmt.Sprintf("%s#%d", funcKey(fn), idx)]
}
