package main

import (
	"fmt"
	"go/ast"
	"go/parser"
	"go/token"
	"regexp"
	"sort"
	"strconv"
	"strings"
)

// C10 on rule data (DESIGN §7 C10): for every rule of the groups that promise an equivalent rewrite
//   (1) each pattern variable is evaluated as often, and in the same relative order, in the rewrite as in the pattern,
//       unless the rule fires only for side-effect-free / constant operands (generator-decided);
//   (2) pattern and rewrite, read as Go expressions over the semantics of the library functions stated in this file,
//       denote the same value for all operand values - one SMT lemma per pattern (solver-decided);
//       rewrites outside the expression fragment must be listed as definitional identities (Go specification or the
//       documented definition of the wrapper), otherwise the obligation fails: a new or changed rule needs a lemma.

var c10Groups = map[string]bool{"stringXbytes": true, "wrapperFunc": true, "unslice": true, "redundantSprint": true, "valSwap": true, "switchTrue": true,
	"yodaStyleExpr": true, "stringsCompare": true, "timeExprSimplify": true, "stringConcatSimplify": true, "emptyStringTest": true, "assignOp": true}

var rewriteInReportRe = []*regexp.Regexp{
	regexp.MustCompile("^replace `\\$\\$` with `(.*)`$"),
	regexp.MustCompile("^can re-write as `(.*)`$"),
	regexp.MustCompile("^suggestion: (.*)$"),
	regexp.MustCompile("^could simplify \\$\\$ to (.*)$"),
	regexp.MustCompile("^consider to change order in expression to (.*)$"),
	regexp.MustCompile("^can simplify `(.*)` to `(.*)`$"),
}

// rewriteOf: the replacement code a rule proposes (its Suggest template, or the code quoted in its message).
func rewriteOf(r *irRule) string {
	if r.Suggest != "" {
		return r.Suggest
	}
	for _, re := range rewriteInReportRe {
		if m := re.FindStringSubmatch(r.Report); m != nil {
			return m[len(m)-1]
		}
	}
	return ""
}

// definitional identities: the rewrite is the documented definition of the wrapper or a rule of the Go specification
var definitional = map[string]string{
	"$wg.Add(-1)":                          "sync.WaitGroup.Done is defined as Add(-1)",
	"$buf.Truncate(0)":                     "bytes.Buffer.Reset is documented as Truncate(0)",
	"http.HandlerFunc(http.NotFound)":      "http.NotFoundHandler returns HandlerFunc(NotFound)",
	"strings.SplitN($_, $_, -1)":           "strings.Split is defined as SplitN(s, sep, -1)",
	"strings.Replace($_, $_, $_, -1)":      "strings.ReplaceAll is defined as Replace(s, old, new, -1)",
	"strings.Map(unicode.ToTitle, $_)":     "strings.ToTitle is defined as Map(unicode.ToTitle, s)",
	"bytes.SplitN(b, []byte(\".\"), -1)":   "bytes.Split is defined as SplitN(s, sep, -1)",
	"bytes.Replace($_, $_, $_, -1)":        "bytes.ReplaceAll is defined as Replace(s, old, new, -1)",
	"bytes.Map(unicode.ToUpper, $_)":       "bytes.ToUpper maps unicode.ToUpper",
	"bytes.Map(unicode.ToLower, $_)":       "bytes.ToLower maps unicode.ToLower",
	"bytes.Map(unicode.ToTitle, $_)":       "bytes.ToTitle maps unicode.ToTitle",
	"draw.DrawMask($_, $_, $_, $_, nil, image.Point{}, $_)": "draw.Draw calls DrawMask with a nil mask",
	"switch true { $*_ }":                  "Go specification: a missing switch tag is equivalent to true",
	"switch $x; true { $*_ }":              "Go specification: a missing switch tag is equivalent to true",
	"$copy($_, []byte($s))":                "Go specification: copy accepts a string source; the bytes copied are the same",
	"$re.Match([]byte($s))":                "regexp: MatchString(s) is documented to report what Match reports on the bytes of s",
	"$re.FindIndex([]byte($s))":            "regexp: FindStringIndex is the string version of FindIndex",
	"$re.FindAllIndex([]byte($s), $n)":     "regexp: FindAllStringIndex is the string version of FindAllIndex",
	"string($x) == string($y)":             "bytes.Equal is documented as string(a) == string(b)",
	"string($x) != string($y)":             "bytes.Equal is documented as string(a) == string(b)",
}

// statement-sequence rewrites: outside the expression fragment; named here so that the gap is explicit
var notDecided = map[string]string{
	"$i := strings.Index($s, $sep); $*_; $x, $y = $s[:$i], $s[$i+1:]":                                       "strings.Cut for Index followed by two slicings (differs when the separator is absent: the original panics)",
	"if $i := strings.Index($s, $sep); $i != -1 { $*_; $x, $y = $s[:$i], $s[$i+1:]; $*_ }": "strings.Cut inside an if statement",
}

var compoundAssignRe = regexp.MustCompile(`^\$x = \$x (\+|-|\*|/|%|&|\||\^|<<|>>|&\^) (\$y|1)$`)

// smtOfTemplate translates an expression template to an SMT term. sorts: variable -> "Int" | "String" | "Bool" | "Time".
type tmplTr struct {
	sorts map[string]string
	// pattern variables in callee position that the rule's filters pin to a predeclared function
	// (Text == "len" and Object.Is(Builtin)): they denote that builtin
	builtins map[string]string
	decls map[string]string
	hyps  []string
	err   error
}

func (t *tmplTr) fail(format string, a ...interface{}) (string, string) {
	if t.err == nil {
		t.err = fmt.Errorf(format, a...)
	}
	return "0", "Int"
}

func (t *tmplTr) declare(name, sort string) string {
	t.decls[name] = sort
	return name
}

func (t *tmplTr) expr(e ast.Expr) (string, string) {
	switch e := e.(type) {
	case *ast.ParenExpr:
		return t.expr(e.X)
	case *ast.Ident:
		if strings.HasPrefix(e.Name, "v_") {
			s, ok := t.sorts[e.Name[2:]]
			if !ok {
				return t.fail("no sort known for $%s", e.Name[2:])
			}
			return t.declare(e.Name, map[string]string{"Time": "Int"}[s] + map[bool]string{true: "", false: s}[s == "Time"]), s
		}
		switch e.Name {
		case "true", "false":
			return e.Name, "Bool"
		}
		return t.fail("identifier %s", e.Name)
	case *ast.BasicLit:
		switch e.Kind {
		case token.INT:
			return e.Value, "Int"
		case token.STRING:
			s, _ := strconv.Unquote(e.Value)
			return smtString(s), "String"
		}
		return t.fail("literal %s", e.Value)
	case *ast.UnaryExpr:
		x, s := t.expr(e.X)
		switch {
		case e.Op == token.NOT && s == "Bool":
			return "(not " + x + ")", "Bool"
		case e.Op == token.SUB && s == "Int":
			return "(- " + x + ")", "Int"
		}
		return t.fail("unary %s on %s", e.Op, s)
	case *ast.BinaryExpr:
		x, sx := t.expr(e.X)
		y, sy := t.expr(e.Y)
		if sx != sy {
			return t.fail("operands of %s have sorts %s and %s", e.Op, sx, sy)
		}
		switch e.Op {
		case token.EQL:
			return "(= " + x + " " + y + ")", "Bool"
		case token.NEQ:
			return "(not (= " + x + " " + y + "))", "Bool"
		case token.LAND:
			return "(and " + x + " " + y + ")", "Bool"
		case token.LOR:
			return "(or " + x + " " + y + ")", "Bool"
		}
		if sx == "Int" {
			switch e.Op {
			case token.LSS, token.LEQ, token.GTR, token.GEQ:
				return "(" + e.Op.String() + " " + x + " " + y + ")", "Bool"
			case token.ADD, token.SUB, token.MUL:
				return "(" + e.Op.String() + " " + x + " " + y + ")", "Int"
			case token.QUO:
				// Go integer division truncates toward zero
				return fmt.Sprintf("(ite (>= %s 0) (div %s %s) (- (div (- %s) %s)))", x, x, y, x, y), "Int"
			}
		}
		if sx == "String" {
			switch e.Op {
			case token.ADD:
				return "(str.++ " + x + " " + y + ")", "String"
			case token.LSS:
				return "(str.< " + x + " " + y + ")", "Bool"
			case token.GTR:
				return "(str.< " + y + " " + x + ")", "Bool"
			case token.LEQ:
				return "(str.<= " + x + " " + y + ")", "Bool"
			case token.GEQ:
				return "(str.<= " + y + " " + x + ")", "Bool"
			}
		}
		return t.fail("binary %s on %s", e.Op, sx)
	case *ast.CallExpr:
		name := ""
		switch f := e.Fun.(type) {
		case *ast.Ident:
			name = f.Name
			if b, ok := t.builtins[strings.TrimPrefix(name, "v_")]; ok && strings.HasPrefix(name, "v_") {
				name = b
			}
		case *ast.SelectorExpr:
			if id, ok := f.X.(*ast.Ident); ok {
				name = id.Name + "." + f.Sel.Name
			}
		case *ast.ArrayType:
			name = "[]byte" // conversion []byte(s): bytes are modelled as the string holding them
		}
		if name == "strings.Join" && len(e.Args) == 2 {
			// strings.Join([]string{a, b, ...}, sep)
			cl, ok := e.Args[0].(*ast.CompositeLit)
			if !ok || len(cl.Elts) == 0 {
				return t.fail("strings.Join of a non-literal list")
			}
			sep, ss := t.expr(e.Args[1])
			if ss != "String" {
				return t.fail("strings.Join separator of sort %s", ss)
			}
			out := ""
			for i, el := range cl.Elts {
				x, s := t.expr(el)
				if s != "String" {
					return t.fail("strings.Join element of sort %s", s)
				}
				if i == 0 {
					out = x
				} else {
					out = "(str.++ " + out + " " + sep + " " + x + ")"
				}
			}
			return out, "String"
		}
		var args, sorts []string
		for _, a := range e.Args {
			x, s := t.expr(a)
			args = append(args, x)
			sorts = append(sorts, s)
		}
		is := func(n int, ss ...string) bool {
			if len(args) != n {
				return false
			}
			for i, s := range ss {
				if sorts[i] != s {
					return false
				}
			}
			return true
		}
		switch {
		case (name == "string" || name == "[]byte") && is(1, "String"):
			return args[0], "String"
		case name == "len" && is(1, "String"):
			return "(str.len " + args[0] + ")", "Int"
		case (name == "strings.Index" || name == "bytes.Index") && is(2, "String", "String"):
			return "(str.indexof " + args[0] + " " + args[1] + " 0)", "Int"
		case (name == "strings.Contains" || name == "bytes.Contains") && is(2, "String", "String"):
			return "(str.contains " + args[0] + " " + args[1] + ")", "Bool"
		case (name == "strings.IndexAny" || name == "bytes.IndexAny" || name == "strings.IndexRune" || name == "bytes.IndexRune") && len(args) == 2:
			// uninterpreted search returning -1 or a position
			f := "f_" + strings.ReplaceAll(strings.SplitN(name, ".", 2)[1], ".", "_") + "_" + sorts[1]
			t.decls[f+"#fun"] = "(declare-fun " + f + " (String " + sorts[1] + ") Int)"
			t.hyps = append(t.hyps, "(>= ("+f+" "+args[0]+" "+args[1]+") (- 1))")
			return "(" + f + " " + args[0] + " " + args[1] + ")", "Int"
		case (name == "strings.ContainsAny" || name == "bytes.ContainsAny" || name == "strings.ContainsRune" || name == "bytes.ContainsRune") && len(args) == 2:
			// documented definition: ContainsX(s, c) = IndexX(s, c) >= 0
			f := "f_" + strings.Replace(strings.SplitN(name, ".", 2)[1], "Contains", "Index", 1) + "_" + sorts[1]
			t.decls[f+"#fun"] = "(declare-fun " + f + " (String " + sorts[1] + ") Int)"
			return "(>= (" + f + " " + args[0] + " " + args[1] + ") 0)", "Bool"
		case name == "strings.Compare" && is(2, "String", "String"):
			return "(ite (str.< " + args[0] + " " + args[1] + ") (- 1) (ite (= " + args[0] + " " + args[1] + ") 0 1))", "Int"
		case name == "strings.Join" && len(e.Args) == 2:
			// strings.Join([]string{a, b, ...}, sep)
			cl, ok := e.Args[0].(*ast.CompositeLit)
			if !ok || len(cl.Elts) == 0 {
				return t.fail("strings.Join of a non-literal list")
			}
			sep, _ := t.expr(e.Args[1])
			out := ""
			for i, el := range cl.Elts {
				x, s := t.expr(el)
				if s != "String" {
					return t.fail("strings.Join element of sort %s", s)
				}
				if i == 0 {
					out = x
				} else {
					out = "(str.++ " + out + " " + sep + " " + x + ")"
				}
			}
			return out, "String"
		}
		// methods of time.Time: t is modelled by its nanoseconds since the epoch
		if sel, ok := e.Fun.(*ast.SelectorExpr); ok && len(e.Args) == 0 {
			x, s := t.expr(sel.X)
			if s == "Time" {
				floorDiv := func(d string) string { return "(div " + x + " " + d + ")" } // SMT div is floor for positive divisors
				switch sel.Sel.Name {
				case "UnixNano":
					return x, "Int"
				case "UnixMicro":
					return floorDiv("1000"), "Int"
				case "UnixMilli":
					return floorDiv("1000000"), "Int"
				case "Unix":
					return floorDiv("1000000000"), "Int"
				}
			}
		}
		return t.fail("call of %s with %d arguments", name, len(args))
	case *ast.CompositeLit:
		return t.fail("composite literal")
	}
	return t.fail("expression %T", e)
}

// sortsFor guesses the sorts of the variables of a rule from its type filters and its group.
func sortsFor(g *irGroup, r *irRule) map[string]string {
	out := map[string]string{}
	for _, cj := range r.Where.conjuncts() {
		if cj.Op == "FilterVarTypeIsOp" && len(cj.Args) == 1 {
			switch cj.Args[0].Value {
			case "string", "[]byte":
				out[cj.Value] = "String"
			case "int", "int64":
				out[cj.Value] = "Int"
			}
		}
	}
	def := map[string]map[string]string{
		"wrapperFunc":          {"s1": "String", "s2": "String", "b1": "String", "b2": "String"},
		"stringsCompare":       {"s1": "String", "s2": "String"},
		"stringConcatSimplify": {"x": "String", "y": "String", "z": "String", "glue": "String"},
		"timeExprSimplify":     {"t": "Time"},
		"emptyStringTest":      {"s": "String"},
		"stringXbytes":         {"b": "String", "s": "String"},
	}
	for v, s := range def[g.Name] {
		if _, ok := out[v]; !ok {
			out[v] = s
		}
	}
	return out
}

func parseTemplate(tmpl string) (ast.Expr, error) {
	src := patVarRe.ReplaceAllStringFunc(strings.ReplaceAll(tmpl, "$$", "v___"), func(m string) string {
		return "v_" + strings.TrimPrefix(strings.TrimPrefix(m, "$"), "*")
	})
	return parser.ParseExpr(src)
}

func init() {
	registerHook("C10", func(c *checkCtx) {
		groups, ok := c.ruleData()
		if !ok {
			return
		}
		seen := map[string]bool{}
		nlemma := 0
		for _, g := range groups {
			if !c10Groups[g.Name] {
				continue
			}
			seen[g.Name] = true
			for i, r := range g.Rules {
				base := fmt.Sprintf("rules/%s/rule#%d", g.Name, i+1)
				rw := rewriteOf(r)
				if rw == "" {
					allDef := len(r.Patterns) > 0
					for _, pat := range r.Patterns {
						if _, isDef := definitional[pat]; !isDef {
							allDef = false
						}
					}
					if allDef {
						for j, pat := range r.Patterns {
							c.assumed[fmt.Sprintf("definitional identity used for %s/pattern#%d: %s", base, j+1, definitional[pat])] = true
						}
						c.direct = append(c.direct, &directResult{Name: base + "/wrapper-is-a-listed-definition", OK: true})
						continue
					}
					c.direct = append(c.direct, &directResult{Name: base + "/rewrite-recognised", OK: false, Detail: "cannot tell which replacement the message " + strconv.Quote(r.Report) + " proposes, and the pattern is not a listed definitional identity"})
					continue
				}
				if notDecided[r.Patterns[0]] != "" {
					c.assumed["NOT DECIDED (statement-level rewrite outside the modelled fragment): "+base+": "+notDecided[r.Patterns[0]]] = true
					continue
				}
				for j, pat := range r.Patterns {
					pn := fmt.Sprintf("%s/pattern#%d", base, j+1)
					// (1) evaluation count and order of the operands
					okEval, why := evalPreserved(r, pat, rw)
					c.direct = append(c.direct, &directResult{Name: pn + "/operands-evaluated-as-often-and-in-the-same-order", OK: okEval,
						Detail: fmt.Sprintf("pattern %q -> %q: %s", pat, rw, why)})
					// (2) equivalence
					if why, isDef := definitional[pat]; isDef {
						c.assumed["definitional identity used for "+pn+": "+why] = true
						continue
					}
					if compoundAssignRe.MatchString(pat) {
						c.assumed["Go specification: x op= y is x = x op (y) with x evaluated once (rules assignOp; the operand is required to be pure)"] = true
						c.direct = append(c.direct, &directResult{Name: pn + "/compound-assignment-needs-a-pure-target", OK: r.requires("FilterVarPureOp", "x"), Detail: "x = x op y evaluates x twice, x op= y once"})
						continue
					}
					if g.Name == "valSwap" && pat != "$tmp := $y; $y = $x; $x = $tmp" {
						c.direct = append(c.direct, &directResult{Name: pn + "/rewrite-has-an-equivalence-lemma", OK: false,
							Detail: fmt.Sprintf("pattern %q -> %q: the swap lemma covers a temporary that is declared by the first statement (`$tmp := $y`) and therefore cannot be read afterwards; with any other shape the parallel assignment drops a store that later code may observe", pat, rw)})
						continue
					}
					if g.Name == "valSwap" {
						// the sequential form evaluates the operands again after the first store, the parallel form evaluates both
						// before it stores: they agree only when neither operand occurs inside the other (a[i] and a[a[i]] do not)
						notContains := func(v, w string) bool {
							for _, cj := range r.Where.conjuncts() {
								if cj.Op == "FilterNotOp" && len(cj.Args) == 1 && cj.Args[0].Op == "FilterVarContainsOp" && cj.Args[0].Value == v && len(cj.Args[0].Args) == 1 && cj.Args[0].Args[0].Value == "$"+w {
									return true
								}
							}
							return false
						}
						c.direct = append(c.direct, &directResult{Name: pn + "/operands-do-not-contain-each-other", OK: notContains("x", "y") && notContains("y", "x"),
							Detail: fmt.Sprintf("pattern %q: `tmp := a[i]; a[i] = a[a[i]]; a[a[i]] = tmp` is not `a[i], a[a[i]] = a[a[i]], a[i]` - the rule must exclude operands that contain each other (!m[\"x\"].Contains(`$y`) && !m[\"y\"].Contains(`$x`))", pat)})
						// tmp := y; y = x; x = tmp   versus   y, x = x, y  (operands denote variables)
						c.addLemma(pn+"/swap-is-equivalent", []string{"(declare-fun x0 () Int)", "(declare-fun y0 () Int)"}, nil,
							"(let ((tmp y0)) (let ((y1 x0)) (let ((x1 tmp)) (and (= y1 x0) (= x1 y0)))))")
						nlemma++
						continue
					}
					if g.Name == "yodaStyleExpr" {
						c.addLemma(pn+"/comparison-commutes", []string{"(declare-fun a () Int)", "(declare-fun b () Int)"}, nil, "(and (= (= a b) (= b a)) (= (not (= a b)) (not (= b a))))")
						nlemma++
						continue
					}
					if g.Name == "unslice" {
						okT := false
						for _, cj := range r.Where.conjuncts() {
							if cj.Op == "FilterOrOp" {
								okT = true
								for _, a := range cj.Args {
									if a.Op != "FilterVarTypeIsOp" || len(a.Args) != 1 || (a.Args[0].Value != "string" && a.Args[0].Value != "[]$_") {
										okT = false
									}
								}
							}
						}
						c.direct = append(c.direct, &directResult{Name: pn + "/full-slice-is-the-operand-only-for-strings-and-slices", OK: okT, Detail: "for an array a, a[:] is a slice and a is not: the rule must be restricted to strings and slices"})
						continue
					}
					if g.Name == "redundantSprint" {
						// fmt.Sprint of an operand whose type is exactly string is that string; for fmt.Stringer operands see known findings
						if rw == "$x" {
							c.direct = append(c.direct, &directResult{Name: pn + "/operand-type-is-exactly-string", OK: hasFilterArg(r, "FilterVarTypeIsOp", "x", "string"), Detail: "fmt.Sprint(x) is x only when x has type string; a defined string type may have Error/Format/String methods that fmt consults first"})
						} else {
							okS := hasFilterArg(r, "FilterVarTypeImplementsOp", "x", "fmt.Stringer")
							c.direct = append(c.direct, &directResult{Name: pn + "/operand-is-a-stringer", OK: okS && (rw == "$x.String()" || rw == "($x).String()"), Detail: "the only other rewrite with a stated semantics is $x.String() for fmt.Stringer operands; " + strconv.Quote(rw) + " has none"})
						}
						continue
					}
					pe, err1 := parseTemplate(pat)
					re, err2 := parseTemplate(rw)
					if err1 != nil || err2 != nil {
						c.direct = append(c.direct, &directResult{Name: pn + "/rewrite-has-an-equivalence-lemma", OK: false, Detail: fmt.Sprintf("pattern %q -> %q is neither an expression of the modelled fragment nor a listed definitional identity", pat, rw)})
						continue
					}
					tr := &tmplTr{sorts: sortsFor(g, r), decls: map[string]string{}, builtins: map[string]string{}}
					for _, v := range varOccurrences(pat) {
						if textIs(r, v, "len") && hasFilterArg(r, "FilterVarObjectIsOp", v, "Builtin") {
							tr.builtins[v] = "len"
						}
					}
					lp, sp := tr.expr(pe)
					lr, sr := tr.expr(re)
					if tr.err != nil || sp != sr {
						msg := fmt.Sprintf("sorts %s vs %s", sp, sr)
						if tr.err != nil {
							msg = tr.err.Error()
						}
						c.direct = append(c.direct, &directResult{Name: pn + "/rewrite-has-an-equivalence-lemma", OK: false, Detail: fmt.Sprintf("pattern %q -> %q cannot be given a semantics (%s) and is not a listed definitional identity", pat, rw, msg)})
						continue
					}
					var decls []string
					var names []string
					for n := range tr.decls {
						names = append(names, n)
					}
					sort.Strings(names)
					for _, n := range names {
						if strings.HasSuffix(n, "#fun") {
							decls = append(decls, tr.decls[n])
						} else {
							decls = append(decls, "(declare-fun "+n+" () "+tr.decls[n]+")")
						}
					}
					c.addLemma(pn+"/rewrite-is-equivalent", decls, tr.hyps, "(= "+lp+" "+lr+")")
					nlemma++
				}
			}
		}
		for n := range c10Groups {
			if !seen[n] {
				c.direct = append(c.direct, &directResult{Name: "rules/" + n + "/present", OK: false, Detail: "rule group not found in the precompiled rule data"})
			}
		}
		c.extraEv["rewrite_lemmas"] = nlemma
		c.assumed["semantics of library functions used in rewrite lemmas: strings/bytes Index = first position or -1, Contains = Index >= 0, ContainsAny/ContainsRune = IndexAny/IndexRune >= 0, Compare = -1/0/+1 by lexical order, Join = concatenation with separator, len of a string = its length, time.Time.Unix/UnixMilli/UnixMicro/UnixNano = floor of the nanosecond count divided by 1e9/1e6/1e3/1; byte slices are modelled by the string holding their bytes; integers are mathematical"] = true
	})
}

// evalPreserved: every named operand occurs as often in the rewrite as in the pattern and the operands keep their
// relative order, except operands the rule requires to be pure or constant.
func evalPreserved(r *irRule, pat, rw string) (bool, string) {
	pure := func(v string) bool {
		return r.requires("FilterVarPureOp", v) || r.requires("FilterVarConstOp", v) || hasFilterArg(r, "FilterVarNodeIsOp", v, "BasicLit")
	}
	po, ro := varOccurrences(pat), varOccurrences(rw)
	cnt := func(xs []string) map[string]int {
		m := map[string]int{}
		for _, x := range xs {
			m[x]++
		}
		return m
	}
	pc, rc := cnt(po), cnt(ro)
	var vars []string
	for v := range pc {
		vars = append(vars, v)
	}
	sort.Strings(vars)
	for _, v := range vars {
		if rc[v] != pc[v] && !pure(v) && rc[v] != 0 {
			return false, fmt.Sprintf("$%s is evaluated %d time(s) by the pattern and %d time(s) by the rewrite, and is not required to be pure", v, pc[v], rc[v])
		}
		if rc[v] == 0 && !pure(v) && strings.Contains(pat, "$"+v+" :=") == false && strings.Contains(pat, "$"+v+"(") == false {
			return false, fmt.Sprintf("$%s is evaluated by the pattern and dropped by the rewrite, and is not required to be pure", v)
		}
	}
	first := func(xs []string) []string {
		seen := map[string]bool{}
		var out []string
		for _, x := range xs {
			if !seen[x] && !pure(x) && rc[x] > 0 && pc[x] > 0 {
				seen[x] = true
				out = append(out, x)
			}
		}
		return out
	}
	fp, fr := first(po), first(ro)
	for i := range fp {
		if i < len(fr) && fp[i] != fr[i] {
			return false, fmt.Sprintf("operands are evaluated in the order %v by the pattern and %v by the rewrite, and are not required to be pure", fp, fr)
		}
	}
	return true, "ok"
}
