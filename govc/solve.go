package main

import (
	"bytes"
	"context"
	"fmt"
	"os"
	"os/exec"
	"path/filepath"
	"runtime"
	"strings"
	"sync"
	"time"
)

type solverSpec struct {
	name string
	argv func(file string, timeoutMs int) []string
}

var solvers = []solverSpec{
	{"z3-5.1.0", func(f string, ms int) []string { return []string{"z3-new", fmt.Sprintf("-t:%d", ms), f} }},
	{"z3-4.8.12", func(f string, ms int) []string { return []string{"z3", fmt.Sprintf("-t:%d", ms), f} }},
	{"cvc5-1.0.3", func(f string, ms int) []string {
		return []string{"cvc5", fmt.Sprintf("--tlimit=%d", ms), "--strings-exp", "--produce-models", f}
	}},
}

// script assembles the standalone SMT-LIB query of one obligation.
func (g *gen) script(o *Obligation) string {
	var sb strings.Builder
	sb.WriteString("; obligation: " + o.Name + "\n")
	sb.WriteString("(set-option :produce-models true)\n(set-logic ALL)\n")
	sb.WriteString(g.st.prelude())
	seen := map[string]bool{}
	for _, c := range g.cmds[:o.cmdIdx] {
		sb.WriteString(c)
		sb.WriteByte('\n')
		if strings.HasPrefix(c, "(declare-fun impl_") {
			name := strings.Fields(c[len("(declare-fun "):])[0]
			seen[name] = true
		}
	}
	// which concrete types implement which interfaces (facts of the Go type system)
	for _, in := range g.st.implOrder {
		if !seen[in] {
			continue
		}
		it := g.st.impls[in]
		for i, tt := range g.st.tagTypes {
			fact := fmt.Sprintf("(%s %d)", in, i+1)
			if typesImplements(tt, it) {
				sb.WriteString("(assert " + fact + ")\n")
			} else {
				sb.WriteString("(assert (not " + fact + "))\n")
			}
		}
	}
	for _, x := range o.Extra {
		sb.WriteString(x + "\n")
	}
	sb.WriteString("(assert " + o.Guard + ")\n")
	if !o.Cover {
		sb.WriteString("(assert (not " + o.Claim + "))\n")
	} else if o.Claim != "" && o.Claim != "true" {
		sb.WriteString("(assert " + o.Claim + ")\n")
	}
	sb.WriteString("(check-sat)\n(get-model)\n")
	return fixSidx(sb.String())
}

type solveResult struct {
	status string // unsat | sat | unknown | timeout | error
	solver string
	out    string
	secs   float64
}

func runSolver(ctx context.Context, s solverSpec, file string, timeoutMs int) solveResult {
	argv := s.argv(file, timeoutMs)
	cctx, cancel := context.WithTimeout(ctx, time.Duration(timeoutMs+2000)*time.Millisecond)
	defer cancel()
	cmd := exec.CommandContext(cctx, argv[0], argv[1:]...)
	var out bytes.Buffer
	cmd.Stdout = &out
	cmd.Stderr = &out
	start := time.Now()
	err := cmd.Run()
	secs := time.Since(start).Seconds()
	text := out.String()
	first := strings.TrimSpace(strings.SplitN(text, "\n", 2)[0])
	for _, line := range strings.Split(text, "\n") {
		if strings.HasPrefix(line, "(error") && !strings.Contains(line, "model is not available") && !strings.Contains(line, "Cannot get model") {
			return solveResult{"error", s.name, text, secs}
		}
	}
	switch first {
	case "unsat", "sat":
		return solveResult{first, s.name, text, secs}
	case "unknown":
		if strings.Contains(text, "timeout") || strings.Contains(text, "canceled") {
			return solveResult{"timeout", s.name, text, secs}
		}
		return solveResult{"unknown", s.name, text, secs}
	case "timeout":
		return solveResult{"timeout", s.name, text, secs}
	}
	if cctx.Err() != nil {
		return solveResult{"timeout", s.name, text, secs}
	}
	_ = err
	return solveResult{"error", s.name, text, secs}
}

// discharge runs one obligation: first the fast solver alone with a short
// limit, then all solvers raced with the full limit.
func discharge(dir string, idx int, script string, timeoutMs int) solveResult {
	file := filepath.Join(dir, fmt.Sprintf("o%05d.smt2", idx))
	if err := os.WriteFile(file, []byte(script), 0o644); err != nil {
		return solveResult{status: "error", out: err.Error()}
	}
	defer os.Remove(file)
	quick := timeoutMs
	if quick > 1500 {
		quick = 1500
	}
	r := runSolver(context.Background(), solvers[0], file, quick)
	total := r.secs
	if r.status == "unsat" || r.status == "sat" {
		return r
	}
	ctx, cancel := context.WithCancel(context.Background())
	defer cancel()
	ch := make(chan solveResult, len(solvers))
	for _, s := range solvers {
		s := s
		go func() { ch <- runSolver(ctx, s, file, timeoutMs) }()
	}
	var last solveResult = r
	for range solvers {
		x := <-ch
		total += x.secs
		if x.status == "unsat" || x.status == "sat" {
			x.secs = total
			return x
		}
		if last.status == "error" || x.status != "error" {
			last = x
		}
	}
	last.secs = total
	return last
}

type job struct {
	g *gen
	o *Obligation
}

func dischargeAll(jobs []job, timeoutMs int, keepScripts bool) {
	dir, err := os.MkdirTemp(scratchRoot(), "govc-smt-")
	if err != nil {
		panic(err)
	}
	defer os.RemoveAll(dir)
	par := runtime.NumCPU()
	if par > 16 {
		par = 16
	}
	var wg sync.WaitGroup
	ch := make(chan int)
	for w := 0; w < par; w++ {
		wg.Add(1)
		go func() {
			defer wg.Done()
			for i := range ch {
				j := jobs[i]
				if j.o.Static != "" {
					j.o.Result = "contract-error"
					j.o.Solver = "none"
					j.o.Model = "the contract clause cannot be interpreted against the current code: " + j.o.Static
					continue
				}
				sc := j.g.script(j.o)
				var r solveResult
				if j.o.Cover {
					// covers are satisfiability checks: a quick look with one solver is enough (only `unsat` matters)
					file := filepath.Join(dir, fmt.Sprintf("c%05d.smt2", i))
					os.WriteFile(file, []byte(sc), 0o644)
					r = runSolver(context.Background(), solvers[0], file, 1500)
					os.Remove(file)
				} else {
					r = discharge(dir, i, sc, timeoutMs)
				}
				j.o.Result = r.status
				j.o.Solver = r.solver
				j.o.TimeS = r.secs
				if r.status != "unsat" || keepScripts {
					j.o.Script = sc
				}
				if r.status == "sat" {
					j.o.Model = r.out
				} else if r.status != "unsat" {
					j.o.Model = r.out
				}
			}
		}()
	}
	for i := range jobs {
		ch <- i
	}
	close(ch)
	wg.Wait()
}

func scratchRoot() string {
	if d := os.Getenv("VERIF_SCRATCH"); d != "" {
		os.MkdirAll(d, 0o755)
		return d
	}
	return "/var/tmp"
}

const sidxDecl = "(declare-fun sidx (Int Int) Int)\n(assert (forall ((o Int) (k Int)) (! (= (sidx o k) (+ o k)) :pattern ((sidx o k)))))\n"

// fixSidx includes the definitional axiom of sidx only in scripts that use it
// (a quantified axiom turns many satisfiable queries into "unknown").
func fixSidx(s string) string {
	if strings.Contains(s, "(sidx ") {
		return strings.Replace(s, "@SIDX@", sidxDecl, 1)
	}
	return strings.Replace(s, "@SIDX@", "", 1)
}
