package main

import (
	"bytes"
	"fmt"
	"go/ast"
	"go/constant"
	"go/printer"
	"go/token"
	"go/types"
	"sort"
	"strings"

	"golang.org/x/tools/go/ast/astutil"
	"golang.org/x/tools/go/packages"
	"golang.org/x/tools/go/ssa"
)

// Obligation is one named proof obligation: under the commands visible at
// cmdIdx, Guard implies Claim.
type Obligation struct {
	Name   string
	Func   string
	Kind   string
	Label  string
	Props  []string
	cmdIdx int
	Guard  string
	Claim  string
	Pos    string
	Cover  bool   // reachability cover: expected sat
	Static string // non-empty: decided without a solver (contract clause could not be interpreted)
	Extra  []string
	Meta   string // machine-readable note (e.g. which callee parameter a guarantee is about)

	Result string
	Solver string
	TimeS  float64
	Model  string
	Script string
}

type state struct {
	heap map[string]string // heap key -> SMT term (name of a defined constant)
}

func (s *state) clone() *state {
	n := &state{heap: make(map[string]string, len(s.heap))}
	for k, v := range s.heap {
		n.heap[k] = v
	}
	return n
}

type closureVal struct {
	fn       *ssa.Function
	bindings []Val
}

type loopInfo struct {
	ord    int
	header *ssa.BasicBlock
	blocks map[*ssa.BasicBlock]bool
	backs  []*ssa.BasicBlock
	mod    map[string]bool
	spec   *LoopSpec
	// captured at header for preservation checks
	headState *state
	phis      []*ssa.Phi
	entryEnv  map[string]Val
	rangeIdx  *ssa.Phi
	rangeLen  string
	seenKey   string // ghost "seen" set for map ranges
}

// inlineCtx: the function currently being symbolically executed is an uncontracted callee inlined into g.key
type inlineCtx struct {
	prefix      string
	callerBlock *ssa.BasicBlock
	entryReach  string
	rets        []inlineRet
	depth       int
}

type inlineRet struct {
	reach string
	st    *state
	vals  []Val
}

type gen struct {
	inl          *inlineCtx
	inlineSeq    int
	entryMeasure string // value of the contract's `decreases` measure at entry (recursive functions)
	depthFacts   bool   // emit the well-foundedness facts of syntax trees (astdepth) with the theory ast-valid
	e            *Engine
	fn           *ssa.Function
	key          string
	ctr          *Contract
	st           *sortTable
	cmds         []string
	obls         []*Obligation
	vals         map[ssa.Value]Val

	heapSort map[string]string
	nfresh   int
	declared map[string]bool

	reach    map[*ssa.BasicBlock]string
	out      map[*ssa.BasicBlock]*state
	entry    *state // state at function entry (for old())
	cur      *state
	curBlock *ssa.BasicBlock
	curReach string

	loops         map[*ssa.BasicBlock]*loopInfo
	loopList      []*loopInfo
	loopMod       map[*ssa.BasicBlock]map[string]bool // from pass 1
	written       map[*ssa.BasicBlock]map[string]bool
	knownPtrs     []string
	allocs        []string
	oblCount      map[string]int
	callOrd       map[string]int
	debugVals     map[string]debugRef // latest DebugRef by name (approximate)
	unsupported   []string
	assumed       map[string]bool // names of assumed contracts / axioms used
	props         []string
	sweep         bool // zero-annotation sweep mode: emit safety obligations only
	logs          map[string]int
	retVals       [][]Val
	embSeen       map[string]bool
	options       genOptions
	knownSorts    map[string]string
	assertedOnce  map[string]bool
	lastLoadEntry bool
	frameMode     bool // generate per-write frame obligations
	assignPlaces  []*Place
	assignErr     error
	frameProps    []string
	opaques       map[string]*opaqueDef
	onCall        func(g *gen, c *ssa.CallCommon, callee *ssa.Function, args []Val, pos token.Pos)
	inAxiom       bool
	rangeSeen     string
	rangeSeenSort string
	onStore       func(g *gen, ins *ssa.Store, addr Val, v Val) // extra obligations at stores (property-specific sweeps)
	onAccess      func(g *gen, key string, pos token.Pos, what string)
	pendingKeys   map[string]bool // heap keys a spawned, not yet joined goroutine may write
	deferred      []*ssa.Defer
	sweepFrames   string          // non-empty: frame sweep of this property; callees are called through their sweep frame contracts
	ifaceCtrs     []*Contract     // contracts of interface methods this method implements (behavioural subtyping)
	skipCand      map[string]bool // candidate invariants that did not hold on an earlier pass (sweeps)
	rxElemKey     string          // element array of syntax.Expr lists (theory regex-syntax-valid), preserved for rxlist bases
	outerState    *state          // the state current when the outermost old(...) / state switch started (see loadLocal)
	loopHavoc     bool            // the havoc in progress is a loop cut, not a call
	stableCells   []stableCell
	astValid      bool // assume theory ast-valid about go/ast node fields
	nilArgs       bool // assume/guarantee: pointer-to-node and receiver arguments of repository calls are non-nil
	curCall       *ssa.CallCommon
	allocVars     map[token.Pos]*ssa.Alloc
	pendingGo     []func() // effects of spawned goroutines, re-applied at the join
	readLog       map[string]bool
}

type genOptions struct {
	safety bool // generate nil/bounds/typeassert obligations
}

func (e *Engine) newGen(fn *ssa.Function, ctr *Contract, loopMod map[*ssa.BasicBlock]map[string]bool) *gen {
	g := &gen{
		e: e, fn: fn, key: funcKey(fn), ctr: ctr, st: newSortTable(),
		vals: map[ssa.Value]Val{}, heapSort: map[string]string{}, declared: map[string]bool{},
		reach: map[*ssa.BasicBlock]string{}, out: map[*ssa.BasicBlock]*state{},
		loops: map[*ssa.BasicBlock]*loopInfo{}, loopMod: loopMod,
		written: map[*ssa.BasicBlock]map[string]bool{}, oblCount: map[string]int{}, callOrd: map[string]int{},
		debugVals: map[string]debugRef{}, assumed: map[string]bool{}, logs: map[string]int{}, embSeen: map[string]bool{}, allocVars: map[token.Pos]*ssa.Alloc{}, assertedOnce: map[string]bool{},
	}
	g.options.safety = true
	if ctr != nil {
		g.props = ctr.Props
		if ctr.NoSafety {
			g.options.safety = false
		}
		if ctr.AstValid {
			g.astValid = true
		}
	}
	return g
}

func (g *gen) emit(format string, args ...interface{}) {
	if len(args) == 0 {
		g.cmds = append(g.cmds, format)
	} else {
		g.cmds = append(g.cmds, fmt.Sprintf(format, args...))
	}
}

func (g *gen) freshName(prefix string) string {
	g.nfresh++
	return fmt.Sprintf("%s!%d", sanitize(prefix), g.nfresh)
}

func (g *gen) declare(name, sort string) {
	if g.declared[name] {
		return
	}
	g.declared[name] = true
	g.emit("(declare-fun %s () %s)", name, sort)
}

func (g *gen) declareFun(name string, args []string, ret string) {
	if g.declared[name] {
		return
	}
	g.declared[name] = true
	g.emit("(declare-fun %s (%s) %s)", name, strings.Join(args, " "), ret)
}

func (g *gen) define(prefix, sort, term string) string {
	n := g.freshName(prefix)
	g.emit("(define-fun %s () %s %s)", n, sort, term)
	return n
}

func (g *gen) assume(cond string) {
	if cond == "true" {
		return
	}
	g.emit("(assert %s)", implies(g.curReach, cond))
}

func (g *gen) assumeGlobal(cond string) {
	if cond == "true" {
		return
	}
	c := "(assert " + cond + ")"
	if g.assertedOnce[c] {
		return
	}
	g.assertedOnce[c] = true
	g.emit(c)
}

func (g *gen) unsupportedf(format string, args ...interface{}) {
	g.unsupported = append(g.unsupported, fmt.Sprintf(format, args...))
}

// contractErr: a clause of the contract cannot be interpreted against the current code (renamed
// parameter, changed signature, ...). The clause is reported as an undischarged obligation.
func (g *gen) contractErr(kind, label string, err error) {
	g.unsupported = append(g.unsupported, fmt.Sprintf("%s %s: %v", kind, label, err))
	o := g.oblige("contract/"+kind, label, "false", token.NoPos, nil)
	o.Static = err.Error()
}

// ---------------------------------------------------------------------------
// heap access

func (g *gen) heapGet(key, sort string) string {
	if g.readLog != nil {
		g.readLog[key] = true
		if _, ok := g.heapSort[key]; !ok {
			g.heapInit(key, sort)
		}
	}
	if v, ok := g.cur.heap[key]; ok {
		return v
	}
	return g.heapInit(key, sort)
}

func (g *gen) heapInit(key, sort string) string {
	name := "H0_" + sanitize(key)
	if _, ok := g.heapSort[key]; !ok {
		g.heapSort[key] = sort
		g.declare(name, sort)
		if g.astValid {
			g.astValidAxioms(key, name, sort)
		}
	}
	return name
}

func (g *gen) heapSet(key, sort, term string) {
	if _, ok := g.heapSort[key]; !ok {
		g.heapInit(key, sort)
	}
	n := g.define("H_"+key, sort, term)
	g.cur.heap[key] = n
	if wb := g.wblock(); wb != nil {
		w := g.written[wb]
		if w == nil {
			w = map[string]bool{}
			g.written[wb] = w
		}
		w[key] = true
	}
}

func (g *gen) heapHavoc(key string) {
	if g.astValid && strings.HasPrefix(key, "F|go/ast.") {
		// the syntax tree is not written by checkers (that is property C05, assumed by this sweep)
		g.assumed["syntax-tree fields are never written (property C05) - assumed by the sweep"] = true
		return
	}
	old := ""
	if g.astValid && (key == "E|Iface" || key == "E|Int" || (g.rxElemKey != "" && key == g.rxElemKey)) {
		old = g.cur.heap[key]
		if old == "" {
			if _, known := g.heapSort[key]; known {
				old = "H0_" + sanitize(key)
			}
		}
	}
	if (strings.HasPrefix(key, "C|") || strings.HasPrefix(key, "F|")) && len(g.stableCells) > 0 {
		prev := g.cur.heap[key]
		if prev == "" {
			if _, known := g.heapSort[key]; known {
				prev = "H0_" + sanitize(key)
			}
		}
		if prev != "" {
			defer func() {
				cur := g.cur.heap[key]
				if cur == "" || cur == prev {
					return
				}
				for _, sc := range g.stableCells {
					if sc.key == key && (!g.loopHavoc || sc.once) {
						g.assumeGlobal(eq(app("select", cur, sc.ref), app("select", prev, sc.ref)))
					}
				}
			}()
		}
	}
	var oldF, nowF string
	if strings.HasPrefix(key, "F|") && g.e.writtenKeys != nil && !g.e.writtenKeys[key] && isRepoKey(key) {
		if cur, ok := g.cur.heap[key]; ok {
			oldF = cur
		} else if _, known := g.heapSort[key]; known {
			oldF = "H0_" + sanitize(key)
		}
		nowF = g.now()
		if g.loopHavoc {
			// at a loop cut the function itself may be constructing objects it allocated earlier: only objects that
			// existed when the function was entered are certainly not under construction here
			nowF = g.now0()
		}
	}
	defer func() {
		if oldF != "" {
			if cur := g.cur.heap[key]; cur != "" && cur != oldF {
				// a field that is only ever written on objects under construction keeps its value on every existing object
				o := g.freshName("cf")
				g.assumed["fields written only during construction keep their values across calls (syntactic whole-repository scan)"] = true
				g.assumeGlobal(fmt.Sprintf("(forall ((%s Int)) (! (=> (<= (birth %s) %s) (= (select %s %s) (select %s %s))) :pattern ((select %s %s))))", o, o, nowF, cur, o, oldF, o, cur, o))
			}
		}
	}()
	defer func() {
		if old != "" && g.rxElemKey != "" && key == g.rxElemKey {
			if cur := g.cur.heap[key]; cur != "" && cur != old {
				b := g.freshName("rlb")
				g.assumeGlobal(fmt.Sprintf("(forall ((%s Int)) (! (=> (rxlist %s) (= (select %s %s) (select %s %s))) :pattern ((select %s %s))))", b, b, cur, b, old, b, cur, b))
			}
			return
		}
		if old != "" && g.declared["astlist"] {
			if cur := g.cur.heap[key]; cur != "" && cur != old {
				b := g.freshName("alb")
				g.assumeGlobal(fmt.Sprintf("(forall ((%s Int)) (! (=> (astlist %s) (= (select %s %s) (select %s %s))) :pattern ((select %s %s))))", b, b, cur, b, old, b, cur, b))
			}
		}
	}()
	sort, ok := g.heapSort[key]
	if !ok && g.knownSorts != nil {
		if s2, ok2 := g.knownSorts[key]; ok2 {
			g.heapInit(key, s2)
			sort, ok = s2, true
		}
	}
	if !ok {
		// never touched by this function: remember as written for loop mod sets, nothing else to do
		if wb := g.wblock(); wb != nil {
			w := g.written[wb]
			if w == nil {
				w = map[string]bool{}
				g.written[wb] = w
			}
			w[key] = true
		}
		return
	}
	n := g.freshName("Hv_" + key)
	g.declare(n, sort)
	g.cur.heap[key] = n
	if wb := g.wblock(); wb != nil {
		w := g.written[wb]
		if w == nil {
			w = map[string]bool{}
			g.written[wb] = w
		}
		w[key] = true
	}
}

func fieldKey(structName, field string) string { return "F|" + structName + "|" + field }
func elemKey(sort string) string               { return "E|" + sort }
func cellKey(sort string) string               { return "C|" + sort }
func mapDomKey(k, v string) string             { return "MD|" + k + "|" + v }
func mapValKey(k, v string) string             { return "MV|" + k + "|" + v }

func arr(idx, val string) string { return "(Array " + idx + " " + val + ")" }

func (g *gen) embFn(structName, field string) string {
	n := "emb_" + sanitize(structName) + "_" + sanitize(field)
	g.declareFun(n, []string{"Int"}, "Int")
	return n
}

func (g *gen) emb(structName, field, ref string) string {
	f := g.embFn(structName, field)
	t := app(f, ref)
	if !g.embSeen[t] {
		g.embSeen[t] = true
		g.assumeGlobal(implies(not(eq(ref, "0")), not(eq(t, "0"))))
		g.assumeGlobal(eq(g.birth(t), g.birth(ref)))
	}
	return t
}

func structOf(t types.Type) (*types.Struct, bool) {
	s, ok := t.Underlying().(*types.Struct)
	return s, ok
}

// loadStruct reads a whole struct value out of an object with identity.
func (g *gen) loadStruct(ref string, t types.Type) string {
	st, _ := structOf(t)
	sn := g.st.sortOf(t)
	name := g.st.structName(t)
	if st.NumFields() == 0 {
		return "mk_" + sn
	}
	var fs []string
	for i := 0; i < st.NumFields(); i++ {
		f := st.Field(i)
		if _, ok := structOf(f.Type()); ok {
			fs = append(fs, g.loadStruct(g.emb(name, f.Name(), ref), f.Type()))
		} else {
			s := g.st.sortOf(f.Type())
			fs = append(fs, app("select", g.heapGet(fieldKey(name, f.Name()), arr("Int", s)), ref))
		}
	}
	return "(mk_" + sn + " " + strings.Join(fs, " ") + ")"
}

func (g *gen) storeStruct(ref string, t types.Type, val string) {
	st, _ := structOf(t)
	sn := g.st.sortOf(t)
	name := g.st.structName(t)
	for i := 0; i < st.NumFields(); i++ {
		f := st.Field(i)
		fv := app(g.st.accessor(sn, i), val)
		if _, ok := structOf(f.Type()); ok {
			g.storeStruct(g.emb(name, f.Name(), ref), f.Type(), fv)
		} else {
			s := g.st.sortOf(f.Type())
			k := fieldKey(name, f.Name())
			g.heapSet(k, arr("Int", s), app("store", g.heapGet(k, arr("Int", s)), ref, fv))
		}
	}
}

func (g *gen) placeRootSort(p *Place) string { return g.st.sortOf(p.Elem) }

func (g *gen) loadPlaceRoot(p *Place) string {
	s := g.placeRootSort(p)
	switch p.Kind {
	case plField:
		return app("select", g.heapGet(fieldKey(p.Struct, p.Field), arr("Int", s)), p.Ref)
	case plElem:
		return app("select", app("select", g.heapGet(elemKey(s), arr("Int", arr("Int", s))), p.Base), p.Idx)
	case plCell:
		return app("select", g.heapGet(cellKey(s), arr("Int", s)), p.Ref)
	}
	panic("bad place")
}

func (g *gen) storePlaceRoot(p *Place, v string) {
	s := g.placeRootSort(p)
	switch p.Kind {
	case plField:
		k := fieldKey(p.Struct, p.Field)
		g.heapSet(k, arr("Int", s), app("store", g.heapGet(k, arr("Int", s)), p.Ref, v))
	case plElem:
		k := elemKey(s)
		as := arr("Int", arr("Int", s))
		h := g.heapGet(k, as)
		g.heapSet(k, as, app("store", h, p.Base, app("store", app("select", h, p.Base), p.Idx, v)))
	case plCell:
		k := cellKey(s)
		g.heapSet(k, arr("Int", s), app("store", g.heapGet(k, arr("Int", s)), p.Ref, v))
	}
}

func (g *gen) loadPlace(p *Place) string {
	t := g.loadPlaceRoot(p)
	for _, s := range p.Sub {
		t = app(g.st.accessor(s.Name, s.Field), t)
	}
	return t
}

func (g *gen) updateSub(root string, sub []subStep, v string) string {
	if len(sub) == 0 {
		return v
	}
	s := sub[0]
	ss := g.st.structs[s.Name]
	var fs []string
	for i := range ss.Fields {
		acc := app(g.st.accessor(s.Name, i), root)
		if i == s.Field {
			fs = append(fs, g.updateSub(acc, sub[1:], v))
		} else {
			fs = append(fs, acc)
		}
	}
	return "(mk_" + s.Name + " " + strings.Join(fs, " ") + ")"
}

func (g *gen) storePlace(p *Place, v string) {
	if len(p.Sub) == 0 {
		g.storePlaceRoot(p, v)
		return
	}
	root := g.loadPlaceRoot(p)
	g.storePlaceRoot(p, g.updateSub(root, p.Sub, v))
}

// placeType is the Go type of the value a place designates.
func placeType(p *Place) types.Type {
	t := p.Elem
	for _, s := range p.Sub {
		t = s.St.Field(s.Field).Type()
	}
	return t
}

// load dereferences a pointer value.
func (g *gen) load(ptr Val, elem types.Type) Val {
	v := g.load1(ptr, elem)
	if g.lastLoadEntry {
		g.noteEntryPtr(v)
	}
	return v
}

// isEntryHeap reports whether the heap array of key is still the entry-state array.
func (g *gen) isEntryHeap(key string) bool {
	v, ok := g.cur.heap[key]
	return !ok || v == "H0_"+sanitize(key)
}

func (g *gen) placeKey(p *Place) string {
	s := g.placeRootSort(p)
	switch p.Kind {
	case plField:
		return fieldKey(p.Struct, p.Field)
	case plElem:
		return elemKey(s)
	case plCell:
		return cellKey(s)
	}
	return ""
}

func (g *gen) load1(ptr Val, elem types.Type) Val {
	s := g.st.sortOf(elem)
	g.lastLoadEntry = false
	if ptr.Place != nil && ptr.Place.Kind == plCell && len(ptr.Place.Sub) == 0 {
		if name, ok := globalNames[ptr.Place.Ref]; ok {
			if ro := g.e.readonly[name]; ro != nil {
				return g.readonlyVal(ro, name, elem)
			}
		}
	}
	if ptr.Place != nil {
		g.lastLoadEntry = g.isEntryHeap(g.placeKey(ptr.Place))
		return g.introduce(Val{T: g.loadPlace(ptr.Place), Sort: s, Typ: elem}, false)
	}
	if _, ok := structOf(elem); ok {
		return Val{T: g.loadStruct(ptr.T, elem), Sort: s, Typ: elem}
	}
	if a, ok := elem.Underlying().(*types.Array); ok {
		es := g.st.sortOf(a.Elem())
		return Val{T: app("select", g.heapGet(elemKey(es), arr("Int", arr("Int", es))), ptr.T), Sort: s, Typ: elem}
	}
	g.lastLoadEntry = g.isEntryHeap(cellKey(s))
	return g.introduce(Val{T: app("select", g.heapGet(cellKey(s), arr("Int", s)), ptr.T), Sort: s, Typ: elem}, false)
}

func (g *gen) store(ptr Val, elem types.Type, v Val) {
	if ptr.Place != nil {
		g.storePlace(ptr.Place, v.T)
		return
	}
	s := g.st.sortOf(elem)
	if _, ok := structOf(elem); ok {
		g.storeStruct(ptr.T, elem, v.T)
		return
	}
	if a, ok := elem.Underlying().(*types.Array); ok {
		es := g.st.sortOf(a.Elem())
		k := elemKey(es)
		as := arr("Int", arr("Int", es))
		g.heapSet(k, as, app("store", g.heapGet(k, as), ptr.T, v.T))
		return
	}
	k := cellKey(s)
	g.heapSet(k, arr("Int", s), app("store", g.heapGet(k, arr("Int", s)), ptr.T, v.T))
}

// introduce records well-formedness facts about a value that enters the
// function from outside (parameter, heap load, call result).
func (g *gen) introduce(v Val, define bool) Val {
	if v.Place == nil && v.Typ != nil {
		switch v.Sort {
		case "Int":
			switch v.Typ.Underlying().(type) {
			case *types.Pointer, *types.Map, *types.Chan:
				g.aliveNow(v.T)
			}
		case "Slice":
			g.aliveNow(app("s_base", v.T))
		}
	}
	if v.Sort == "Iface" && v.Typ != nil && g.astValid && noTypedNil(v.Typ) {
		// syntax-tree and go/types interface values never hold typed nil pointers
		g.assumeGlobal(implies(not(eq(app("i_tag", v.T), "0")), not(eq(app("i_val", v.T), "0"))))
	}
	switch v.Sort {
	case "Slice":
		if define {
			v.T = g.define("v", v.Sort, v.T)
		}
		g.assumeGlobal(g.wfSlice(v.T))
	case "Int":
		if v.Typ != nil {
			if b, ok := v.Typ.Underlying().(*types.Basic); ok && b.Info()&types.IsUnsigned != 0 {
				g.assumeGlobal(app(">=", v.T, "0"))
			}
		}
	}
	return v
}

func (g *gen) wfSlice(t string) string {
	return and(app(">=", app("s_len", t), "0"), app(">=", app("s_cap", t), app("s_len", t)), app(">=", app("s_off", t), "0"),
		implies(eq(app("s_base", t), "0"), eq(app("s_cap", t), "0")))
}

// ---------------------------------------------------------------------------
// obligations

func (g *gen) oblige(kind, label, claim string, pos token.Pos, props []string) *Obligation {
	base := g.key + "/" + kind + "/" + label
	g.oblCount[base]++
	name := fmt.Sprintf("%s#%d", base, g.oblCount[base])
	o := &Obligation{Name: name, Func: g.key, Kind: kind, Label: label, Props: props, cmdIdx: len(g.cmds), Guard: g.curReach, Claim: claim}
	if pos.IsValid() {
		p := g.e.prog.Fset.Position(pos)
		o.Pos = fmt.Sprintf("%s:%d", strings.TrimPrefix(p.Filename, g.e.repo+"/"), p.Line)
	}
	g.obls = append(g.obls, o)
	return o
}

// after an obligation has been recorded, later code may rely on it
func (g *gen) obligeAndAssume(kind, label, claim string, pos token.Pos) {
	if claim == "true" {
		return
	}
	g.oblige(kind, label, claim, pos, nil)
	g.assume(claim)
}

// srcText renders the smallest interesting AST node at pos.
func (g *gen) srcText(pos token.Pos, want func(ast.Node) bool) string {
	if !pos.IsValid() {
		return ""
	}
	pkg := g.pkgOf()
	if pkg == nil {
		return ""
	}
	for _, f := range pkg.Syntax {
		if f.Pos() <= pos && pos < f.End() {
			path, _ := astutil.PathEnclosingInterval(f, pos, pos+1)
			for _, n := range path {
				if want(n) {
					var buf bytes.Buffer
					printer.Fprint(&buf, g.e.prog.Fset, n)
					s := strings.Join(strings.Fields(buf.String()), " ")
					if len(s) > 80 {
						s = s[:80] + "…"
					}
					return s
				}
			}
		}
	}
	return ""
}

func (g *gen) pkgOf() *packages.Package {
	f := g.fn
	for f.Parent() != nil {
		f = f.Parent()
	}
	if f.Pkg == nil {
		return nil
	}
	p := g.e.byPkg[f.Pkg.Pkg.Path()]
	if p == nil {
		return nil
	}
	return p
}

// ---------------------------------------------------------------------------
// values

func (g *gen) constVal(c *ssa.Const) Val {
	t := c.Type()
	s := g.st.sortOf(t)
	if c.Value == nil {
		return Val{T: g.st.zero(t), Sort: s, Typ: t}
	}
	switch c.Value.Kind() {
	case constant.Bool:
		if constant.BoolVal(c.Value) {
			return Val{T: "true", Sort: "Bool", Typ: t}
		}
		return Val{T: "false", Sort: "Bool", Typ: t}
	case constant.String:
		return Val{T: smtString(constant.StringVal(c.Value)), Sort: "String", Typ: t}
	case constant.Int:
		if s == "Real" {
			return Val{T: realLit(c.Value), Sort: s, Typ: t}
		}
		if i, ok := constant.Int64Val(c.Value); ok {
			return Val{T: intLit(i), Sort: "Int", Typ: t}
		}
		if u, ok := constant.Uint64Val(c.Value); ok {
			return Val{T: fmt.Sprintf("%d", u), Sort: "Int", Typ: t}
		}
		return Val{T: c.Value.ExactString(), Sort: "Int", Typ: t}
	case constant.Float:
		if s == "Int" {
			if i, ok := constant.Int64Val(constant.ToInt(c.Value)); ok {
				return Val{T: intLit(i), Sort: "Int", Typ: t}
			}
		}
		return Val{T: realLit(c.Value), Sort: "Real", Typ: t}
	}
	return Val{T: g.st.zero(t), Sort: s, Typ: t}
}

func realLit(v constant.Value) string {
	f := constant.ToFloat(v)
	num := constant.Num(f)
	den := constant.Denom(f)
	ns := num.ExactString()
	neg := strings.HasPrefix(ns, "-")
	ns = strings.TrimPrefix(ns, "-")
	t := "(/ " + ns + ".0 " + den.ExactString() + ".0)"
	if neg {
		t = "(- " + t + ")"
	}
	return t
}

var globalIDs = map[string]int{}
var globalNames = map[string]string{}

func globalAddr(name string) string {
	id, ok := globalIDs[name]
	if !ok {
		id = len(globalIDs) + 1
		globalIDs[name] = id
	}
	a := fmt.Sprintf("(- %d)", id)
	globalNames[a] = name
	return a
}

// readonlyVal: the value of a package-level variable that only its initializer writes.
func (g *gen) readonlyVal(ro *ReadonlyGlobal, name string, t types.Type) Val {
	s := g.st.sortOf(t)
	c := "gconst_" + sanitize(name)
	first := !g.declared[c]
	g.declare(c, s)
	v := Val{T: c, Sort: s, Typ: t}
	if first {
		g.assumed["readonly global "+name+" (written only by its initializer; checked syntactically)"] = true
		g.introduce(v, false)
		g.noteEntryPtr(v)
		if ro.Inv != nil {
			env := &specEnv{vars: map[string]Val{"value": v}, pkg: g.pkgTypes(), calleeMode: true}
			if t, err := g.evalBool(env, ro.Inv.E); err == nil {
				g.assumeGlobal(t)
			} else {
				g.unsupportedf("readonly %s: %v", name, err)
			}
		}
	}
	return v
}

var funcIDs = map[string]int{}

func funcID(name string) string {
	id, ok := funcIDs[name]
	if !ok {
		id = len(funcIDs) + 1000
		funcIDs[name] = id
	}
	return fmt.Sprintf("%d", id)
}

func (g *gen) val(v ssa.Value) Val {
	if x, ok := g.vals[v]; ok {
		return x
	}
	switch v := v.(type) {
	case *ssa.Const:
		return g.constVal(v)
	case *ssa.Global:
		pt := v.Type().(*types.Pointer).Elem()
		name := v.String()
		if v.Pkg != nil {
			name = shortPkg(v.Pkg.Pkg.Path()) + "." + v.Name()
		}
		addr := globalAddr(name)
		if _, ok := structOf(pt); ok {
			return Val{T: addr, Sort: "Int", Typ: v.Type()}
		}
		if _, ok := pt.Underlying().(*types.Array); ok {
			return Val{T: addr, Sort: "Int", Typ: v.Type()}
		}
		return Val{T: addr, Sort: "Int", Typ: v.Type(), Place: &Place{Kind: plCell, Ref: addr, Elem: pt}}
	case *ssa.Function:
		return Val{T: funcID(funcKey(v)), Sort: "Int", Typ: v.Type(), Fn: &closureVal{fn: v}}
	case *ssa.Builtin:
		return Val{T: "0", Sort: "Int", Typ: v.Type()}
	}
	// parameters, free variables and not-yet-defined registers (should not happen in RPO)
	s := g.st.sortOf(v.Type())
	n := sanitize(v.Name())
	g.declare(n, s)
	x := g.introduce(Val{T: n, Sort: s, Typ: v.Type()}, false)
	g.vals[v] = x
	return x
}

func (g *gen) setVal(v ssa.Value, x Val) {
	g.vals[v] = x
}

// defineVal binds an SSA register to a term via define-fun (keeps scripts readable).
func (g *gen) defineVal(v ssa.Value, term string) Val {
	s := g.st.sortOf(v.Type())
	n := sanitize(v.Name())
	if g.declared[n] {
		n = g.freshName(v.Name())
	}
	g.declared[n] = true
	g.emit("(define-fun %s () %s %s)", n, s, term)
	x := Val{T: n, Sort: s, Typ: v.Type()}
	g.vals[v] = x
	return x
}

func (g *gen) havocVal(v ssa.Value) Val {
	s := g.st.sortOf(v.Type())
	n := sanitize(v.Name())
	if g.declared[n] {
		n = g.freshName(v.Name())
	}
	g.declare(n, s)
	x := g.introduce(Val{T: n, Sort: s, Typ: v.Type()}, false)
	g.vals[v] = x
	return x
}

func (g *gen) freshVal(prefix string, t types.Type) Val {
	s := g.st.sortOf(t)
	n := g.freshName(prefix)
	g.declare(n, s)
	return g.introduce(Val{T: n, Sort: s, Typ: t}, false)
}

// Allocation model: every object has a birth time; NOW is a scalar piece of state. A pointer that is
// visible at some point was born at or before that point; a new object is born strictly later.
func (g *gen) birth(t string) string {
	g.declareFun("birth", []string{"Int"}, "Int")
	return app("birth", t)
}

func (g *gen) now() string { return g.heapGet("NOW", "Int") }

func (g *gen) now0() string { return g.heapInit("NOW", "Int") }

// alive0Term: the object existed when the function was entered.
func (g *gen) alive0Term(t string) string { return app("<=", g.birth(t), g.now0()) }

// alive: t was read from the entry state (parameter, free variable, unmodified heap).
func (g *gen) alive(t string) {
	if t == "0" || t == "" {
		return
	}
	g.assumeGlobal(or(eq(t, "0"), g.alive0Term(t)))
}

// aliveNow: any pointer value that is visible now refers to an object that exists now.
func (g *gen) aliveNow(t string) {
	if t == "0" || t == "" || strings.HasPrefix(t, "(- ") {
		return
	}
	g.assume(or(eq(t, "0"), app("<=", g.birth(t), g.now())))
}

// newAlloc: a fresh object is non-nil and is born after everything that exists now.
func (g *gen) newAlloc(prefix string) string {
	n := g.freshName(prefix)
	g.declare(n, "Int")
	g.assumeGlobal(and(app(">", n, "0"), app(">", g.birth(n), g.now())))
	g.heapSet("NOW", "Int", g.birth(n))
	g.allocs = append(g.allocs, n)
	if g.astValid {
		// an object allocated here is neither a node nor a list of the analysed tree
		g.declTnode()
		g.declareFun("astlist", []string{"Int"}, "Bool")
		g.assumeGlobal(and(not(app("tnode", n)), not(app("astlist", n))))
		if g.declared["rxlist"] {
			g.assumeGlobal(not(app("rxlist", n)))
		}
	}
	return n
}

// tick: something outside (a call, a loop iteration) may have allocated.
func (g *gen) tick() {
	old := g.now()
	g.heapHavoc("NOW")
	g.assume(app(">=", g.now(), old))
}

func (g *gen) notePtr(v Val) {}

// noteEntryPtr: the value was read from the entry state (parameter, free variable, unmodified heap)
func (g *gen) noteEntryPtr(v Val) {
	if v.Place != nil || v.Typ == nil {
		return
	}
	switch v.Sort {
	case "Int":
		switch v.Typ.Underlying().(type) {
		case *types.Pointer, *types.Map, *types.Chan, *types.Signature:
			g.alive(v.T)
		}
	case "Slice":
		g.alive(app("s_base", v.T))
	case "Iface":
		// payload pointers of interface values: alive or nil (boxed scalars are not references, harmless)
		g.alive(app("i_val", v.T))
	}
}

// zeroInit writes zero values into a freshly allocated object.
func (g *gen) zeroInit(ref string, t types.Type) {
	if st, ok := structOf(t); ok {
		name := g.st.structName(t)
		for i := 0; i < st.NumFields(); i++ {
			f := st.Field(i)
			if _, ok := structOf(f.Type()); ok {
				g.zeroInit(g.emb(name, f.Name(), ref), f.Type())
			} else {
				s := g.st.sortOf(f.Type())
				k := fieldKey(name, f.Name())
				g.heapSet(k, arr("Int", s), app("store", g.heapGet(k, arr("Int", s)), ref, g.st.zeroSort(s)))
			}
		}
		return
	}
	if a, ok := t.Underlying().(*types.Array); ok {
		es := g.st.sortOf(a.Elem())
		k := elemKey(es)
		as := arr("Int", arr("Int", es))
		g.heapSet(k, as, app("store", g.heapGet(k, as), ref, g.st.zeroSort(arr("Int", es))))
		return
	}
	s := g.st.sortOf(t)
	k := cellKey(s)
	g.heapSet(k, arr("Int", s), app("store", g.heapGet(k, arr("Int", s)), ref, g.st.zeroSort(s)))
}

// boxing of non-pointer payloads in interface values
func (g *gen) box(v Val) string {
	if v.Sort == "Int" {
		return v.T
	}
	if v.Sort == "Iface" {
		return app("i_val", v.T)
	}
	sn := sanitize(v.Sort)
	bf, uf := "box_"+sn, "unbox_"+sn
	g.declareFun(bf, []string{v.Sort}, "Int")
	g.declareFun(uf, []string{"Int"}, v.Sort)
	b := app(bf, v.T)
	g.assumeGlobal(eq(app(uf, b), v.T))
	return b
}

func (g *gen) unbox(payload, sort string) string {
	if sort == "Int" {
		return payload
	}
	sn := sanitize(sort)
	bf, uf := "box_"+sn, "unbox_"+sn
	g.declareFun(bf, []string{sort}, "Int")
	g.declareFun(uf, []string{"Int"}, sort)
	return app(uf, payload)
}

func (g *gen) implFn(iface types.Type) string {
	n := "impl_" + sanitize(typeName(iface))
	if !g.declared[n] {
		g.declareFun(n, []string{"Int"}, "Bool")
		g.st.impls[n] = iface
		g.st.implOrder = append(g.st.implOrder, n)
	}
	return n
}

// ---------------------------------------------------------------------------
// CFG helpers

func (g *gen) computeLoops() {
	fn := g.fn
	if len(fn.Blocks) == 0 {
		return
	}
	for _, b := range fn.Blocks {
		for _, s := range b.Succs {
			if s.Dominates(b) { // back edge b -> s
				li := g.loops[s]
				if li == nil {
					li = &loopInfo{header: s, blocks: map[*ssa.BasicBlock]bool{s: true}, mod: map[string]bool{}}
					g.loops[s] = li
				}
				li.backs = append(li.backs, b)
				// natural loop
				stack := []*ssa.BasicBlock{b}
				for len(stack) > 0 {
					x := stack[len(stack)-1]
					stack = stack[:len(stack)-1]
					if li.blocks[x] {
						continue
					}
					li.blocks[x] = true
					stack = append(stack, x.Preds...)
				}
			}
		}
	}
	var hs []*ssa.BasicBlock
	for h := range g.loops {
		hs = append(hs, h)
	}
	sort.Slice(hs, func(i, j int) bool { return hs[i].Index < hs[j].Index })
	for i, h := range hs {
		li := g.loops[h]
		li.ord = i + 1
		if g.ctr != nil {
			li.spec = g.ctr.Loops[li.ord]
		}
		if g.loopMod != nil {
			for k := range g.loopMod[h] {
				li.mod[k] = true
			}
		}
		g.loopList = append(g.loopList, li)
	}
}

func (g *gen) rpo() []*ssa.BasicBlock {
	var order []*ssa.BasicBlock
	seen := map[*ssa.BasicBlock]bool{}
	var dfs func(b *ssa.BasicBlock)
	dfs = func(b *ssa.BasicBlock) {
		seen[b] = true
		for i := len(b.Succs) - 1; i >= 0; i-- {
			s := b.Succs[i]
			if !seen[s] {
				dfs(s)
			}
		}
		order = append(order, b)
	}
	dfs(g.fn.Blocks[0])
	for i, j := 0, len(order)-1; i < j; i, j = i+1, j-1 {
		order[i], order[j] = order[j], order[i]
	}
	return order
}

// blkPrefix keeps the block-derived names of an inlined callee apart from the caller's
func (g *gen) blkPrefix() string {
	if g.inl != nil {
		return g.inl.prefix
	}
	return ""
}

// wblock: the block of the function under verification that heap writes are attributed to (loop mod-sets)
func (g *gen) wblock() *ssa.BasicBlock {
	if g.inl != nil {
		return g.inl.callerBlock
	}
	return g.curBlock
}

func (g *gen) isBackEdge(from, to *ssa.BasicBlock) bool {
	return to.Dominates(from)
}

func (g *gen) edgeName(from, to *ssa.BasicBlock) string {
	return fmt.Sprintf("%sedge_b%d_b%d", g.blkPrefix(), from.Index, to.Index)
}

// ---------------------------------------------------------------------------
// main driver for one function

func (g *gen) run() {
	fn := g.fn
	if len(fn.Blocks) == 0 {
		g.unsupportedf("function has no body")
		return
	}
	g.computeLoops()
	g.cur = &state{heap: map[string]string{}}
	g.curReach = "true"
	// parameters and free variables
	for _, p := range fn.Params {
		v := g.val(p)
		g.noteEntryPtr(v)
	}
	for _, fv := range fn.FreeVars {
		v := g.val(fv)
		// a free variable is a pointer to the captured cell
		pt := fv.Type().(*types.Pointer).Elem()
		if _, ok := structOf(pt); !ok {
			if _, isArr := pt.Underlying().(*types.Array); !isArr {
				v.Place = &Place{Kind: plCell, Ref: v.T, Elem: pt}
				g.vals[fv] = v
			}
		}
		g.assumeGlobal(not(eq(v.T, "0")))
		g.alive(v.T)
	}
	g.entry = g.cur.clone()
	if g.ctr != nil && g.ctr.Decreases != nil {
		g.depthFacts = true
	}
	if g.ctr != nil {
		for _, ls := range g.ctr.Loops {
			if ls.Decreases != nil {
				g.depthFacts = true
			}
		}
	}
	if g.ctr != nil {
		env := g.specEnvAtEntry()
		if g.ctr.Decreases != nil {
			if m, err := g.evalSpec(env, g.ctr.Decreases.E); err != nil {
				g.contractErr("decreases", "measure", err)
			} else {
				g.entryMeasure = m.T
			}
		}
		for _, r := range g.ctr.Requires {
			t, err := g.evalBool(env, r.E)
			if err != nil {
				g.contractErr("requires", r.Label, err)
				continue
			}
			g.assumeGlobal(t)
		}
		// assume/guarantee across interface dispatch: what the contract of the interface method (`*.Name`) requires is shown at
		// every invoke site (applyContract on the wildcard contract) and may be relied upon by each implementation
		if g.inl == nil && g.fn.Signature.Recv() != nil && len(g.fn.Params) > 0 {
			for _, ic := range g.e.ifaceContractsOf(g.fn) {
				ienv := g.specEnvAtEntry()
				ienv.vars["recv"] = g.val(g.fn.Params[0])
				for i, p := range g.fn.Params[1:] {
					ienv.vars[fmt.Sprintf("arg%d", i)] = g.val(p)
				}
				for _, r := range ic.Requires {
					if t, err := g.evalBool(ienv, r.E); err == nil {
						g.assumeGlobal(t)
						g.assumed["entry of "+g.key+" relies on "+ic.Key+" requires "+r.Label+" (shown at the invoke sites)"] = true
					} else {
						g.contractErr("iface-requires", r.Label, err)
					}
				}
			}
		}
	}
	// the entry state may have been extended by evaluating requires (lazy heap declarations do not change it)
	g.entry = g.cur.clone()
	if g.ctr != nil && g.ctr.HasAssign && g.ctr.TrustedFrame {
		g.assumed["frame of "+g.key+" is assumed (trusted_frame)"] = true
	}
	if g.ctr != nil && g.ctr.HasAssign && !g.ctr.TrustedFrame {
		g.frameMode = true
		env := g.specEnvAtEntry()
		for _, a := range g.ctr.Assigns {
			p, err := g.placeOf(env, a)
			if err != nil {
				g.contractErr("assigns", a.String(), err)
				continue
			}
			g.assignPlaces = append(g.assignPlaces, p)
		}
	}

	order := g.rpo()
	for _, b := range order {
		g.block(b)
	}
}

func (g *gen) block(b *ssa.BasicBlock) {
	g.curBlock = b
	li := g.loops[b]
	// reachability and incoming state
	type inEdge struct {
		pred *ssa.BasicBlock
		cond string
	}
	var ins []inEdge
	for _, p := range b.Preds {
		if g.isBackEdge(p, b) {
			continue
		}
		if _, ok := g.reach[p]; !ok {
			continue // unreachable predecessor
		}
		ins = append(ins, inEdge{p, g.edgeName(p, b)})
	}
	var reach string
	if b.Index == 0 && g.inl != nil {
		reach = g.inl.entryReach
	} else if b.Index == 0 {
		reach = "true"
	} else {
		var cs []string
		for _, in := range ins {
			cs = append(cs, in.cond)
		}
		if len(cs) == 0 {
			// unreachable (e.g. code after panic)
			return
		}
		reach = fmt.Sprintf("%sreach_b%d", g.blkPrefix(), b.Index)
		g.emit("(define-fun %s () Bool %s)", reach, or(cs...))
	}
	g.reach[b] = reach
	g.curReach = reach

	// merge states
	if b.Index != 0 {
		keys := map[string]bool{}
		for _, in := range ins {
			for k := range g.out[in.pred].heap {
				keys[k] = true
			}
		}
		ks := make([]string, 0, len(keys))
		for k := range keys {
			ks = append(ks, k)
		}
		sort.Strings(ks)
		ns := &state{heap: map[string]string{}}
		for _, k := range ks {
			var term string
			for i := len(ins) - 1; i >= 0; i-- {
				v, ok := g.out[ins[i].pred].heap[k]
				if !ok {
					v = g.heapInit(k, g.heapSort[k])
				}
				if term == "" {
					term = v
				} else {
					term = ite(ins[i].cond, v, term)
				}
			}
			if strings.HasPrefix(term, "(") {
				term = g.define("Hm_"+k, g.heapSort[k], term)
			}
			ns.heap[k] = term
		}
		g.cur = ns
	}

	// phis
	var phis []*ssa.Phi
	for _, ins := range b.Instrs {
		if p, ok := ins.(*ssa.Phi); ok {
			phis = append(phis, p)
		} else {
			break
		}
	}
	phiFrom := func(p *ssa.Phi, filter func(pred *ssa.BasicBlock) bool) string {
		var term string
		for i := len(b.Preds) - 1; i >= 0; i-- {
			pred := b.Preds[i]
			if !filter(pred) {
				continue
			}
			if _, ok := g.reach[pred]; !ok {
				continue
			}
			v := g.val(p.Edges[i]).T
			if term == "" {
				term = v
			} else {
				term = ite(g.edgeName(pred, b), v, term)
			}
		}
		if term == "" {
			term = g.st.zero(p.Type())
		}
		return term
	}
	if li == nil {
		for _, p := range phis {
			x := g.defineVal(p, phiFrom(p, func(*ssa.BasicBlock) bool { return true }))
			g.notePhi(p, x)
		}
	} else {
		g.loopHeader(li, phis, func(p *ssa.Phi) string {
			return phiFrom(p, func(pred *ssa.BasicBlock) bool { return !g.isBackEdge(pred, b) })
		})
	}

	// instructions
	for i, ins := range b.Instrs {
		if _, ok := ins.(*ssa.Phi); ok {
			continue
		}
		g.instr(b, i, ins)
	}
	g.out[b] = g.cur

	// successor edges
	if len(b.Instrs) > 0 {
		switch last := b.Instrs[len(b.Instrs)-1].(type) {
		case *ssa.If:
			c := g.val(last.Cond).T
			if b.Succs[0] == b.Succs[1] {
				g.emit("(define-fun %s () Bool %s)", g.edgeName(b, b.Succs[0]), reach)
			} else {
				g.emit("(define-fun %s () Bool %s)", g.edgeName(b, b.Succs[0]), and(reach, c))
				g.emit("(define-fun %s () Bool %s)", g.edgeName(b, b.Succs[1]), and(reach, not(c)))
			}
		case *ssa.Jump:
			g.emit("(define-fun %s () Bool %s)", g.edgeName(b, b.Succs[0]), reach)
		}
	}
	// back edges leaving this block: invariant preservation
	for _, s := range b.Succs {
		if g.isBackEdge(b, s) {
			if l := g.loops[s]; l != nil {
				g.loopBack(l, b)
			}
		}
	}
}

func (g *gen) notePhi(p *ssa.Phi, x Val) {
	g.notePtr(x)
}

// loopHeader cuts the loop: proves the invariants on entry, havocs the loop
// state and assumes the invariants.
func (g *gen) loopHeader(li *loopInfo, phis []*ssa.Phi, initOf func(*ssa.Phi) string) {
	li.phis = phis
	// 1. entry values
	initEnv := map[string]Val{}
	for _, p := range phis {
		s := g.st.sortOf(p.Type())
		initEnv[p.Name()] = Val{T: initOf(p), Sort: s, Typ: p.Type()}
	}
	// detect range-over-slice index loops
	for _, p := range phis {
		if p.Comment == "rangeindex" {
			li.rangeIdx = p
		}
	}
	// 2. invariants hold on entry
	invs := g.loopInvariants(li)
	for _, inv := range invs {
		env := g.specEnvHere()
		g.bindLoopVars(env, li, func(p *ssa.Phi) Val { return initEnv[p.Name()] })
		t, err := g.evalBool(env, inv.E)
		if err != nil {
			g.contractErr(fmt.Sprintf("loop#%d-invariant", li.ord), inv.Label, err)
			continue
		}
		g.oblige(fmt.Sprintf("loop#%d/inv-init", li.ord), inv.Label, t, token.NoPos, inv.Props)
	}
	// 3. havoc
	for _, p := range phis {
		x := g.havocVal(p)
		g.notePtr(x)
	}
	var ks []string
	for k := range li.mod {
		ks = append(ks, k)
	}
	sort.Strings(ks)
	nowBefore := g.now()
	g.loopHavoc = true
	for _, k := range ks {
		g.heapHavoc(k)
		g.assumeFrame(k)
	}
	g.loopHavoc = false
	if li.mod["NOW"] {
		g.assume(app(">=", g.now(), nowBefore))
	}
	for _, p := range phis {
		g.introduce(g.vals[p], false)
	}
	// automatic facts for range-index loops: -1 <= idx < len (proved, see inv list) are part of invs
	li.headState = g.cur.clone()
	// 4. assume invariants
	for _, inv := range invs {
		env := g.specEnvHere()
		g.bindLoopVars(env, li, func(p *ssa.Phi) Val { return g.vals[p] })
		t, err := g.evalBool(env, inv.E)
		if err != nil {
			continue
		}
		g.assume(t)
	}
}

func (g *gen) loopBack(li *loopInfo, from *ssa.BasicBlock) {
	saveReach := g.curReach
	g.curReach = g.edgeName(from, li.header)
	idx := -1
	for i, p := range li.header.Preds {
		if p == from {
			idx = i
		}
	}
	for _, inv := range g.loopInvariants(li) {
		env := g.specEnvHere()
		g.bindLoopVars(env, li, func(p *ssa.Phi) Val { return g.val(p.Edges[idx]) })
		t, err := g.evalBool(env, inv.E)
		if err != nil {
			continue
		}
		g.oblige(fmt.Sprintf("loop#%d/inv-preserved", li.ord), inv.Label, t, token.NoPos, inv.Props)
	}
	if li.spec != nil {
		for _, bc := range li.spec.Body {
			env := g.specEnvHere()
			// loop-carried variables: x is the value after this iteration, x$old the value at its start; $i is the index of the element processed
			g.bindLoopVars(env, li, func(p *ssa.Phi) Val { return g.val(p.Edges[idx]) })
			for _, p := range li.phis {
				if p.Comment == "rangeindex" {
					hv := g.vals[p]
					env.vars["$i"] = Val{T: app("+", hv.T, "1"), Sort: "Int", Typ: p.Type()}
				} else if p.Comment != "" {
					env.vars[p.Comment+"$old"] = g.vals[p]
				}
			}
			env.old = li.headState
			t, err := g.evalBool(env, bc.E)
			if err != nil {
				g.contractErr(fmt.Sprintf("loop#%d-body", li.ord), bc.Label, err)
				continue
			}
			g.oblige(fmt.Sprintf("loop#%d/body", li.ord), bc.Label, t, token.NoPos, bc.Props)
		}
	}
	if li.spec != nil && li.spec.Decreases != nil {
		d := li.spec.Decreases
		envOld := g.specEnvHere()
		g.bindLoopVars(envOld, li, func(p *ssa.Phi) Val { return g.vals[p] })
		envOld.st = g.out[li.header] // approximate: state does not matter for integer measures
		envNew := g.specEnvHere()
		g.bindLoopVars(envNew, li, func(p *ssa.Phi) Val { return g.val(p.Edges[idx]) })
		o, err1 := g.evalSpec(envOld, d.E)
		n, err2 := g.evalSpec(envNew, d.E)
		if err1 == nil && err2 == nil {
			g.oblige(fmt.Sprintf("loop#%d/decreases", li.ord), d.Label, and(app(">=", o.T, "0"), app("<", n.T, o.T)), token.NoPos, d.Props)
		}
	}
	g.curReach = saveReach
}

// loopInvariants = generated induction-variable invariants + contract invariants
func (g *gen) loopInvariants(li *loopInfo) []*Clause {
	var out []*Clause
	if li.rangeIdx != nil {
		if lenTerm := g.rangeLenOf(li); lenTerm != nil {
			out = append(out, &Clause{Label: "range-index-bounds", E: &SExpr{Op: "&&", Args: []*SExpr{
				{Op: "<=", Args: []*SExpr{{Op: "int", Lit: "0"}, {Op: "id", Name: "$i"}}},
				{Op: "<=", Args: []*SExpr{{Op: "id", Name: "$i"}, lenTerm}},
			}}})
		}
	}
	out = append(out, g.countingInvariants(li)...)
	if li.spec != nil {
		out = append(out, li.spec.Invs...)
	}
	if g.sweepFrames != "" {
		// candidate: a local slice variable that a loop carries around is nil or was allocated by this function (so appending to it
		// in place writes nothing that existed before the call). Candidates that do not hold are dropped on a second pass.
		for _, p := range li.phis {
			if p.Comment == "" || p.Comment == "rangeindex" {
				continue
			}
			if _, ok := p.Type().Underlying().(*types.Slice); !ok {
				continue
			}
			label := "local-slice-stays-local " + p.Comment
			if g.skipCand[fmt.Sprintf("loop#%d/%s", li.ord, label)] {
				continue
			}
			id := &SExpr{Op: "id", Name: p.Comment}
			out = append(out, &Clause{Label: label, E: &SExpr{Op: "||", Args: []*SExpr{
				{Op: "==", Args: []*SExpr{{Op: "call", Name: "base", Args: []*SExpr{id}}, {Op: "int", Lit: "0"}}},
				{Op: "call", Name: "fresh", Args: []*SExpr{id}},
			}}})
		}
	}
	if g.sweepFrames != "" && g.ctr != nil {
		// owned slices and maps stay owned across every loop as well (same clause as the postcondition)
		for _, en := range g.ctr.Ensures {
			if strings.HasPrefix(en.Label, "owned-") {
				out = append(out, en)
			}
		}
	}
	return out
}

// countingInvariants: an integer variable that every back edge of the loop increases (decreases) by a positive constant
// and nothing else assigns stays at or above (at or below) the value it entered the loop with. The clause is an ordinary
// invariant: shown on entry and across every back edge, assumed at the cut. It gives "for i := len(xs)-1; i >= 0; i--"
// and "for i := k; i < n; i++" their missing bound.
func (g *gen) countingInvariants(li *loopInfo) []*Clause {
	var out []*Clause
	for _, p := range li.phis {
		if p.Comment == "rangeindex" || len(p.Edges) != len(li.header.Preds) {
			continue
		}
		if b, ok := p.Type().Underlying().(*types.Basic); !ok || b.Info()&types.IsInteger == 0 {
			continue
		}
		var init ssa.Value
		dir, okShape := 0, true
		for i, e := range p.Edges {
			if !li.blocks[li.header.Preds[i]] {
				if init != nil && init != e {
					okShape = false
				}
				init = e
				continue
			}
			bo, ok := e.(*ssa.BinOp)
			if !ok || bo.X != ssa.Value(p) || (bo.Op != token.ADD && bo.Op != token.SUB) {
				okShape = false
				break
			}
			c, ok := bo.Y.(*ssa.Const)
			if !ok || c.Value == nil || c.Value.Kind() != constant.Int {
				okShape = false
				break
			}
			sg := constant.Sign(c.Value)
			if bo.Op == token.SUB {
				sg = -sg
			}
			if sg == 0 || (dir != 0 && dir != sg) {
				okShape = false
				break
			}
			dir = sg
		}
		if !okShape || init == nil || dir == 0 {
			continue
		}
		var initE *SExpr
		if c, ok := init.(*ssa.Const); ok && c.Value != nil && c.Value.Kind() == constant.Int {
			initE = &SExpr{Op: "int", Lit: c.Value.ExactString()}
		} else if _, ok := g.vals[init]; ok && init.Parent() == g.fn {
			initE = &SExpr{Op: "id", Name: "$reg:" + init.Name()}
		} else {
			continue
		}
		id := &SExpr{Op: "id", Name: "$phi:" + p.Name()}
		name := p.Comment
		if name == "" {
			name = p.Name()
		}
		if dir > 0 {
			out = append(out, &Clause{Label: "counter-never-below-its-start " + name, E: &SExpr{Op: ">=", Args: []*SExpr{id, initE}}})
		} else {
			out = append(out, &Clause{Label: "counter-never-above-its-start " + name, E: &SExpr{Op: "<=", Args: []*SExpr{id, initE}}})
		}
	}
	return out
}

// rangeLenOf finds the SSA register holding len(x) for a rangeindex loop:
// header: t = phi; t1 = t + 1; t2 = t1 < tLen; if t2 ...
func (g *gen) rangeLenOf(li *loopInfo) *SExpr {
	for _, ins := range li.header.Instrs {
		if b, ok := ins.(*ssa.BinOp); ok && b.Op == token.LSS {
			if inc, ok := b.X.(*ssa.BinOp); ok && inc.X == ssa.Value(li.rangeIdx) {
				if _, ok := g.vals[b.Y]; ok {
					return &SExpr{Op: "id", Name: "$reg:" + b.Y.Name()}
				}
				if c, ok := b.Y.(*ssa.Const); ok {
					return &SExpr{Op: "int", Lit: c.Value.ExactString()}
				}
			}
		}
	}
	return nil
}

// bindLoopVars makes the loop's phis visible to invariants under their source names.
func (g *gen) bindLoopVars(env *specEnv, li *loopInfo, valOf func(*ssa.Phi) Val) {
	for _, p := range li.phis {
		v := valOf(p)
		if p.Comment == "rangeindex" {
			env.vars["$i"] = Val{T: app("+", v.T, "1"), Sort: "Int", Typ: p.Type()}
			continue
		}
		if p.Comment != "" {
			env.vars[p.Comment] = v
		}
		env.vars["$phi:"+p.Name()] = v
	}
}

// assumeFrame: in a function whose writes are all checked against its `assigns` clause, any heap array
// equals the entry array at every object that was alive at entry and is not named in `assigns`
// (justified by the per-write frame obligations of the same function).
func (g *gen) assumeFrame(key string) {
	if !g.frameMode {
		return
	}
	cur, ok := g.cur.heap[key]
	if !ok {
		return
	}
	init := "H0_" + sanitize(key)
	if cur == init || !g.declared[init] {
		return
	}
	if strings.HasPrefix(key, "LOG|") || strings.HasPrefix(key, "G|") || strings.HasPrefix(key, "RG|") || key == "NOW" {
		return
	}
	o := g.freshName("fo")
	conds := []string{g.alive0Term(o)}
	for _, a := range g.assignPlaces {
		match := false
		switch a.Kind {
		case plField:
			match = key == fieldKey(a.Struct, a.Field) || (a.Field == "*" && strings.HasPrefix(key, "F|"+a.Struct+"|"))
		case plCell:
			match = key == cellKey(g.st.sortOf(a.Elem))
		case plElem:
			match = key == elemKey(g.st.sortOf(a.Elem))
		case plMap:
			match = g.isMapKeyOf(a, key)
		}
		if match {
			if g.placeRef(a) == "*" {
				return // every object's field may change: no frame knowledge for this array
			}
			conds = append(conds, not(eq(o, g.placeRef(a))))
		}
	}
	g.assumeGlobal(fmt.Sprintf("(forall ((%s Int)) (! (=> %s (= (select %s %s) (select %s %s))) :pattern ((select %s %s))))", o, and(conds...), cur, o, init, o, cur, o))
}

func noTypedNil(t types.Type) bool {
	n, ok := types.Unalias(t).(*types.Named)
	if !ok || n.Obj().Pkg() == nil {
		return false
	}
	switch n.Obj().Pkg().Path() {
	case "go/ast", "go/types":
		_, isI := n.Underlying().(*types.Interface)
		return isI
	}
	return false
}

// isRepoKey: the heap key belongs to a struct type declared in the repository
func isRepoKey(key string) bool {
	rest := strings.TrimPrefix(key, "F|")
	return strings.HasPrefix(rest, "checkers") || strings.HasPrefix(rest, "linter.") || strings.HasPrefix(rest, "cmd/")
}
