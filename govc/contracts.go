package main

import (
	"bufio"
	"fmt"
	"os"
	"path/filepath"
	"regexp"
	"strconv"
	"strings"
)

type Clause struct {
	Label string
	Props []string
	Src   string
	E     *SExpr
	Where string // file:line
}

type LoopSpec struct {
	Invs      []*Clause
	Decreases *Clause
	Body      []*Clause // per-iteration postconditions: old() is the state at the loop header
}

type CallClause struct {
	Callee string // substring of the callee's name as printed in SSA
	Ord    int    // 0 = every matching call, k = k-th matching call in block order
	Kind   string // "requires" (obligation before the call) | "assume" (never used for repo code)
	Clause
}

type Contract struct {
	Key       string
	Props     []string
	Requires  []*Clause
	Ensures   []*Clause
	Assigns   []*SExpr
	HasAssign bool
	Loops     map[int]*LoopSpec
	Calls     []*CallClause
	Pure      bool
	MayPanic  bool
	NoSafety  bool
	AstValid  bool // verify under the theory ast-valid (what parser and type checker guarantee about the tree)
	DynCallsFrame bool
	Abstracts []*Clause
	DynCallsPure bool
	TrustedFrame bool // `assigns` is assumed at call sites; the per-write frame obligations of the body are not generated
	Trusted   bool // contract is assumed, body not verified (listed in evidence)
	Fresh     bool // result is freshly allocated
	Bounded   int
	External  bool
	Emits     []*EmitSpec
	Sets      []*SetSpec
	File      string
	Notes     []string
	// termination of recursive functions: a measure that is non-negative and strictly smaller at every recursive call,
	// or a stated reason why the recursion ends (an assumption, listed in the evidence)
	Decreases    *Clause
	TerminatesBy string
	TotalOrder   string // reason why the custom comparison this function sorts with is total on the sorted elements (assumed; C02)
}

// SetSpec: ghost map update performed by the contract at the call: sets $name(key) := value
type SetSpec struct {
	Name  string
	Key   *SExpr
	Value *SExpr
}

type GhostDecl struct {
	Name    string
	KeyType string
	ValType string
}

// ReadonlyGlobal: the variable is treated as a constant; a syntactic obligation checks that only the
// package initializer stores to it, and its initial value must establish Inv.
type ReadonlyGlobal struct {
	Name  string // short pkg + "." + var
	Inv   *Clause
	Where string
}

type EmitSpec struct {
	Log  string
	Args []*SExpr
}

type SpecFunc struct {
	Name   string
	Params []Binder
	Ret    string
	Body   *SExpr
	Src    string
	Where  string
	Pkg    string // short path of the package whose contract file defines it ("" for theory files)
	Opaque bool // emitted as an uninterpreted function with a trigger-guarded definitional axiom
}

type Axiom struct {
	Pkg   string
	Label string
	E     *SExpr
	Src   string
	Where string
}

var clauseKeywords = map[string]bool{
	"func": true, "ext": true, "spec": true, "abstract": true, "axiom": true, "prop": true,
	"requires": true, "ensures": true, "assigns": true, "loop": true, "call": true, "pure": true,
	"may_panic": true, "nosafety": true, "astvalid": true, "trusted": true, "bounded": true, "fresh": true, "emits": true, "note": true, "sets": true, "ghost": true, "readonly": true, "trusted_frame": true, "guarded": true, "dyncalls_pure": true, "abstracts": true, "dyncalls_frame": true, "decreases": true, "terminates_by": true, "total_order": true,
}

var labelRe = regexp.MustCompile(`^@([A-Za-z0-9_\-./]+)\s+`)
var propsRe = regexp.MustCompile(`^\{([A-Z0-9, ]+)\}\s*`)

func parseClause(src, where string) (*Clause, error) {
	c := &Clause{Where: where}
	for {
		src = strings.TrimSpace(src)
		if m := labelRe.FindStringSubmatch(src); m != nil {
			c.Label = m[1]
			src = src[len(m[0]):]
			continue
		}
		if m := propsRe.FindStringSubmatch(src); m != nil {
			for _, p := range strings.Split(m[1], ",") {
				c.Props = append(c.Props, strings.TrimSpace(p))
			}
			src = src[len(m[0]):]
			continue
		}
		break
	}
	c.Src = src
	e, err := parseSpec(src)
	if err != nil {
		return nil, fmt.Errorf("%s: %v", where, err)
	}
	c.E = e
	if c.Label == "" {
		c.Label = normLabel(src)
	}
	return c, nil
}

func normLabel(s string) string {
	s = strings.Join(strings.Fields(s), " ")
	if len(s) > 70 {
		s = s[:70] + "…"
	}
	return s
}

// readContractFile parses one //@ file. pkgKey is the short package path the
// function names are relative to ("" for theory files, which use full names).
func (e *Engine) readContractFile(path, pkgKey string) error {
	f, err := os.Open(path)
	if err != nil {
		return err
	}
	defer f.Close()
	e.ctrSrc = append(e.ctrSrc, path)
	type rawLine struct {
		text string
		line int
	}
	var lines []rawLine
	sc := bufio.NewScanner(f)
	sc.Buffer(make([]byte, 1<<20), 1<<20)
	n := 0
	for sc.Scan() {
		n++
		t := strings.TrimSpace(sc.Text())
		var body string
		switch {
		case strings.HasPrefix(t, "//@"):
			body = strings.TrimSpace(t[3:])
		case strings.HasPrefix(t, "// @"):
			body = strings.TrimSpace(t[4:])
		default:
			continue
		}
		if body == "" || strings.HasPrefix(body, "#") {
			continue
		}
		first := strings.Fields(body)[0]
		if !clauseKeywords[first] && len(lines) > 0 {
			lines[len(lines)-1].text += " " + body
			continue
		}
		lines = append(lines, rawLine{body, n})
	}
	var cur *Contract
	for _, l := range lines {
		where := fmt.Sprintf("%s:%d", path, l.line)
		fields := strings.Fields(l.text)
		kw := fields[0]
		rest := strings.TrimSpace(l.text[len(kw):])
		switch kw {
		case "func", "ext":
			key := rest
			ext := kw == "ext"
			if ext {
				key = strings.TrimSpace(strings.TrimPrefix(rest, "func"))
			} else if pkgKey != "" {
				key = pkgKey + "." + rest
			}
			cur = &Contract{Key: key, Loops: map[int]*LoopSpec{}, File: where, External: ext}
			if ext {
				if _, dup := e.ext[key]; dup {
					return fmt.Errorf("%s: duplicate external contract %s", where, key)
				}
				e.ext[key] = cur
			} else {
				if _, dup := e.ctrs[key]; dup {
					return fmt.Errorf("%s: duplicate contract %s", where, key)
				}
				e.ctrs[key] = cur
			}
		case "spec", "abstract":
			sf, err := parseSpecFunc(kw, rest, where)
			if err != nil {
				return err
			}
			sf.Pkg = pkgKey
			if pkgKey != "" {
				// package-local spec function (the twin command packages define the same names)
				if e.pkgSpecs == nil {
					e.pkgSpecs = map[string]map[string]*SpecFunc{}
				}
				if e.pkgSpecs[pkgKey] == nil {
					e.pkgSpecs[pkgKey] = map[string]*SpecFunc{}
				}
				if _, dup := e.pkgSpecs[pkgKey][sf.Name]; dup {
					return fmt.Errorf("%s: duplicate spec function %s", where, sf.Name)
				}
				e.pkgSpecs[pkgKey][sf.Name] = sf
				cur = nil
				continue
			}
			if old, dup := e.specs[sf.Name]; dup {
				return fmt.Errorf("%s: spec function %s redefined (first at %s)", where, sf.Name, old.Where)
			}
			e.specs[sf.Name] = sf
			cur = nil
		case "guarded":
			// guarded <global> by <mutex global>: every read or write of the variable happens while the mutex is held
			fs := strings.Fields(rest)
			if len(fs) != 3 || fs[1] != "by" {
				return fmt.Errorf("%s: guarded wants `<var> by <mutex>`", where)
			}
			if e.guarded == nil {
				e.guarded = map[string]string{}
			}
			e.guarded[pkgKey+"."+fs[0]] = pkgKey + "." + fs[2]
			cur = nil
		case "readonly":
			// readonly <global> [@label expr over `value`]: a package-level variable written only by its initializer
			fs := strings.Fields(rest)
			if len(fs) == 0 {
				return fmt.Errorf("%s: readonly wants a variable name", where)
			}
			ro := &ReadonlyGlobal{Name: pkgKey + "." + fs[0], Where: where}
			if len(fs) > 1 {
				c, err := parseClause(strings.TrimSpace(rest[len(fs[0]):]), where)
				if err != nil {
					return err
				}
				ro.Inv = c
			}
			if e.readonly == nil {
				e.readonly = map[string]*ReadonlyGlobal{}
			}
			e.readonly[ro.Name] = ro
			cur = nil
		case "ghost":
			// ghost $name(keytype) valtype
			m := ghostRe.FindStringSubmatch(rest)
			if m == nil {
				return fmt.Errorf("%s: malformed ghost declaration %q", where, rest)
			}
			if e.ghosts == nil {
				e.ghosts = map[string]*GhostDecl{}
			}
			e.ghosts[m[1]] = &GhostDecl{Name: m[1], KeyType: m[2], ValType: m[3]}
			cur = nil
		case "axiom":
			c, err := parseClause(rest, where)
			if err != nil {
				return err
			}
			e.axioms = append(e.axioms, &Axiom{Pkg: pkgKey, Label: c.Label, E: c.E, Src: c.Src, Where: where})
			cur = nil
		default:
			if cur == nil {
				return fmt.Errorf("%s: clause %q outside a func block", where, kw)
			}
			switch kw {
			case "prop":
				cur.Props = append(cur.Props, strings.Fields(rest)...)
			case "requires", "ensures":
				c, err := parseClause(rest, where)
				if err != nil {
					return err
				}
				if kw == "requires" {
					cur.Requires = append(cur.Requires, c)
				} else {
					cur.Ensures = append(cur.Ensures, c)
				}
			case "assigns":
				cur.HasAssign = true
				if rest != "" && rest != "nothing" {
					for _, part := range splitTop(rest) {
						x, err := parseSpec(part)
						if err != nil {
							return fmt.Errorf("%s: %v", where, err)
						}
						cur.Assigns = append(cur.Assigns, x)
					}
				}
			case "loop":
				if len(fields) < 3 {
					return fmt.Errorf("%s: malformed loop clause", where)
				}
				k, err := strconv.Atoi(fields[1])
				if err != nil {
					return fmt.Errorf("%s: loop ordinal: %v", where, err)
				}
				ls := cur.Loops[k]
				if ls == nil {
					ls = &LoopSpec{}
					cur.Loops[k] = ls
				}
				body := strings.TrimSpace(rest[len(fields[1]):])
				body = strings.TrimSpace(body[len(fields[2]):])
				c, err := parseClause(body, where)
				if err != nil {
					return err
				}
				switch fields[2] {
				case "invariant":
					ls.Invs = append(ls.Invs, c)
				case "decreases":
					ls.Decreases = c
				case "body":
					ls.Body = append(ls.Body, c)
				default:
					return fmt.Errorf("%s: unknown loop clause %q", where, fields[2])
				}
			case "call":
				// call <callee>[#k] requires <clause>
				if len(fields) < 4 {
					return fmt.Errorf("%s: malformed call clause", where)
				}
				callee := fields[1]
				ord := 0
				if i := strings.LastIndex(callee, "#"); i > 0 {
					if k, err := strconv.Atoi(callee[i+1:]); err == nil {
						ord = k
						callee = callee[:i]
					}
				}
				kind := fields[2]
				if kind != "requires" {
					return fmt.Errorf("%s: call clause kind %q not supported", where, kind)
				}
				idx := strings.Index(rest, kind)
				c, err := parseClause(rest[idx+len(kind):], where)
				if err != nil {
					return err
				}
				cur.Calls = append(cur.Calls, &CallClause{Callee: callee, Ord: ord, Kind: kind, Clause: *c})
			case "decreases":
				x, err := parseSpec(rest)
				if err != nil {
					return fmt.Errorf("%s: %v", where, err)
				}
				cur.Decreases = &Clause{Label: "measure", Src: rest, E: x, Where: where}
			case "total_order":
				cur.TotalOrder = rest
				cur.Notes = append(cur.Notes, "the custom sort comparison is assumed total: "+rest)
			case "terminates_by":
				cur.TerminatesBy = rest
				cur.Notes = append(cur.Notes, "termination of the recursion is assumed, not proved: "+rest)
			case "pure":
				cur.Pure = true
				cur.HasAssign = true
			case "abstracts":
				// abstracts result as f(args): names the result of an interface method at its call sites (assumed: the
				// method is a function of its receiver and arguments); not checked on implementations
				c, err := parseClause("@abstracts result == "+strings.TrimSpace(strings.TrimPrefix(rest, "result as")), where)
				if err != nil {
					return err
				}
				cur.Abstracts = append(cur.Abstracts, c)
			case "dyncalls_pure":
				cur.DynCallsPure = true
				cur.DynCallsFrame = true
				cur.Notes = append(cur.Notes, "calls through function values are modelled as pure functions of (function value, arguments): "+rest)
			case "dyncalls_frame":
				cur.DynCallsFrame = true
				cur.Notes = append(cur.Notes, "calls through function values are assumed not to write state visible here: "+rest)
			case "trusted_frame":
				cur.TrustedFrame = true
				cur.Notes = append(cur.Notes, "frame assumed, not verified: "+rest)
			case "astvalid":
				cur.AstValid = true
				cur.Notes = append(cur.Notes, "verified under the theory ast-valid (facts the parser and type checker guarantee about syntax trees): "+rest)
			case "nosafety":
				cur.NoSafety = true
				cur.Notes = append(cur.Notes, "safety obligations not generated: "+rest)
			case "may_panic":
				cur.MayPanic = true
			case "trusted":
				cur.Trusted = true
				cur.Notes = append(cur.Notes, rest)
			case "fresh":
				cur.Fresh = true
			case "bounded":
				k, _ := strconv.Atoi(strings.TrimPrefix(rest, "k="))
				cur.Bounded = k
			case "sets":
				// sets $name(key) := value
				i := strings.Index(rest, ":=")
				if i < 0 {
					return fmt.Errorf("%s: sets wants $name(key) := value", where)
				}
				lhs, err := parseSpec(strings.TrimSpace(rest[:i]))
				if err != nil || lhs.Op != "call" || len(lhs.Args) != 1 {
					return fmt.Errorf("%s: sets wants $name(key) := value", where)
				}
				rhs, err := parseSpec(strings.TrimSpace(rest[i+2:]))
				if err != nil {
					return fmt.Errorf("%s: %v", where, err)
				}
				cur.Sets = append(cur.Sets, &SetSpec{Name: lhs.Name, Key: lhs.Args[0], Value: rhs})
			case "emits":
				// emits <log>(args...)
				x, err := parseSpec(rest)
				if err != nil || x.Op != "call" {
					return fmt.Errorf("%s: emits wants log(args): %v", where, err)
				}
				cur.Emits = append(cur.Emits, &EmitSpec{Log: x.Name, Args: x.Args})
			case "note":
				cur.Notes = append(cur.Notes, rest)
			}
		}
	}
	return nil
}

// splitTop splits on commas that are not nested in brackets.
func splitTop(s string) []string {
	var out []string
	depth := 0
	start := 0
	inStr := false
	for i := 0; i < len(s); i++ {
		switch s[i] {
		case '"':
			inStr = !inStr
		case '(', '[':
			if !inStr {
				depth++
			}
		case ')', ']':
			if !inStr {
				depth--
			}
		case ',':
			if depth == 0 && !inStr {
				out = append(out, strings.TrimSpace(s[start:i]))
				start = i + 1
			}
		}
	}
	out = append(out, strings.TrimSpace(s[start:]))
	return out
}

var ghostRe = regexp.MustCompile(`^(\$[A-Za-z0-9_]+)\s*\(\s*([A-Za-z\.\*\[\]]+)\s*\)\s*([A-Za-z]+)$`)

var specHeadRe = regexp.MustCompile(`^([A-Za-z_][A-Za-z0-9_]*)\s*\(([^)]*)\)\s*([A-Za-z0-9\[\]\*\.]*)\s*(=\s*(.*))?$`)

func parseSpecFunc(kw, rest, where string) (*SpecFunc, error) {
	opaque := false
	if strings.HasPrefix(rest, "opaque ") {
		opaque = true
		rest = strings.TrimSpace(rest[len("opaque "):])
	}
	m := specHeadRe.FindStringSubmatch(rest)
	if m == nil {
		return nil, fmt.Errorf("%s: malformed %s declaration: %q", where, kw, rest)
	}
	sf := &SpecFunc{Name: m[1], Ret: m[3], Where: where, Src: rest, Opaque: opaque}
	if sf.Ret == "" {
		sf.Ret = "bool"
	}
	if strings.TrimSpace(m[2]) != "" {
		for _, p := range strings.Split(m[2], ",") {
			fs := strings.Fields(p)
			if len(fs) == 1 {
				sf.Params = append(sf.Params, Binder{Name: fs[0], Type: "int"})
			} else if len(fs) == 2 {
				sf.Params = append(sf.Params, Binder{Name: fs[0], Type: fs[1]})
			} else {
				return nil, fmt.Errorf("%s: malformed parameter %q", where, p)
			}
		}
	}
	if kw == "spec" {
		if m[5] == "" {
			return nil, fmt.Errorf("%s: spec function %s needs a body", where, sf.Name)
		}
		b, err := parseSpec(m[5])
		if err != nil {
			return nil, fmt.Errorf("%s: %v", where, err)
		}
		sf.Body = b
	}
	return sf, nil
}

// loadContracts reads every zz_contracts_verif.go of the repository and every
// theory file under theoryDir.
func (e *Engine) loadContracts(theoryDir string) error {
	var files []string
	err := filepath.Walk(e.repo, func(p string, info os.FileInfo, err error) error {
		if err != nil {
			return nil
		}
		if info.IsDir() && (info.Name() == ".git" || info.Name() == "testdata") {
			return filepath.SkipDir
		}
		if !info.IsDir() && info.Name() == "zz_contracts_verif.go" {
			files = append(files, p)
		}
		return nil
	})
	if err != nil {
		return err
	}
	for _, p := range files {
		rel, _ := filepath.Rel(e.repo, filepath.Dir(p))
		if err := e.readContractFile(p, filepath.ToSlash(rel)); err != nil {
			return err
		}
	}
	ths, _ := filepath.Glob(filepath.Join(theoryDir, "*.spec"))
	for _, p := range ths {
		if err := e.readContractFile(p, ""); err != nil {
			return err
		}
	}
	return nil
}
