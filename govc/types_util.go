package main

import "go/types"

func typesImplements(t types.Type, iface types.Type) bool {
	it, ok := iface.Underlying().(*types.Interface)
	if !ok {
		return false
	}
	if types.IsInterface(t) {
		return false
	}
	return types.Implements(t, it)
}
