package main

import (
	"go/types"
	"strings"

	"golang.org/x/tools/go/ssa"
)

// C04 (sufficient conditions for race freedom), part "every checker instance owns its mutable state":
// in the functions that construct checkers, whatever reference to mutable state is stored into the new
// checker object (pointers to dependencies' objects, maps, slices) must be allocated by that very constructor
// call - never a package-level object or a cached one shared between instances. Immutable dependencies
// (*regexp.Regexp, go/types and go/ast values, the CheckerContext handed in) may be shared.

func sharableType(t types.Type) bool {
	s := t.String()
	for _, ok := range []string{"regexp.Regexp", "linter.CheckerContext", "linter.Context", "go/ast.", "go/types.", "go/token.", "linter.CheckerInfo", "go/build.Context"} {
		if strings.Contains(s, ok) {
			return true
		}
	}
	return false
}

func init() {
	registerHook("C04", func(c *checkCtx) {
		n := 0
		for _, k := range c.e.sortedFuncKeys() {
			isCtor := (strings.HasPrefix(k, "checkers.init@") && strings.Contains(k, "$")) || k == "checkers.newRuleguardChecker" || strings.HasPrefix(k, "checkers.InitEmbeddedRules$")
			if !isCtor {
				continue
			}
			fn := c.e.funcs[k]
			if len(fn.Blocks) == 0 {
				continue
			}
			ctr := &Contract{Key: k, Loops: map[int]*LoopSpec{}, Props: []string{"C04"}, File: "synthesised by govc (C04 constructor sweep)", NoSafety: true}
			g := c.e.verifyWith(fn, ctr, &genOptions{safety: false}, func(g *gen) {
				g.onStore = func(g *gen, ins *ssa.Store, addr Val, v Val) {
					fa, ok := ins.Addr.(*ssa.FieldAddr)
					if !ok {
						return
					}
					if _, isAlloc := fa.X.(*ssa.Alloc); !isAlloc {
						return
					}
					pt := fa.X.Type().Underlying().(*types.Pointer).Elem()
					st, _ := structOf(pt)
					n, isNamed := types.Unalias(pt).(*types.Named)
					if !isNamed || n.Obj().Pkg() == nil || !strings.HasPrefix(n.Obj().Pkg().Path(), repoMod+"/checkers") {
						return
					}
					f := st.Field(fa.Field)
					var ref string
					switch f.Type().Underlying().(type) {
					case *types.Pointer:
						if sharableType(f.Type()) {
							return
						}
						ref = v.T
					case *types.Map:
						ref = v.T
					case *types.Slice:
						ref = app("s_base", v.T)
					default:
						return
					}
					claim := or(eq(ref, "0"), app(">", g.birth(ref), g.now0()))
					g.oblige("owns", "state stored into "+n.Obj().Name()+"."+f.Name()+" is allocated by this constructor", claim, ins.Pos(), nil)
				}
			})
			c.addGenNoCover(g, func(o *Obligation) bool { return o.Kind == "owns" })
			n++
		}
		c.extraEv["constructors_checked"] = n
	})
}
