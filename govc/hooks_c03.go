package main

import (
	"fmt"
	"go/types"
	"sort"
	"strings"

	"golang.org/x/tools/go/ssa"
)

// C03 scratch-state discipline (DESIGN §7 C03 (2)): every checker field that is written outside the
// constructor ("scratch") must be re-initialised before it is read within its epoch:
//
//	epoch file:      EnterFile  (or a checker's own WalkFile)
//	epoch function:  EnterFunc  (state initialised here may be read by every Visit* of that function)
//	epoch node:      Visit*
//
// The obligation "no read of c.f on a path on which c.f was not fully written since the epoch began" is a
// definite-assignment property of the methods of one type. It is decided here by an exhaustive forward
// data-flow over the SSA of those methods (calls to methods on the same receiver are followed, closures that
// capture the receiver are analysed where they are created); no solver is involved, which the evidence states.
// With all scratch state reset before use and all other fields written only by the constructor, the diagnostics
// of a file cannot depend on what the instance analysed before.

type scratchState map[string]bool // field -> definitely initialised

func (s scratchState) clone() scratchState {
	n := scratchState{}
	for k, v := range s {
		n[k] = v
	}
	return n
}

func (s scratchState) key() string {
	var ks []string
	for k, v := range s {
		if v {
			ks = append(ks, k)
		}
	}
	sort.Strings(ks)
	return strings.Join(ks, ",")
}

func meetState(a, b scratchState) scratchState {
	if a == nil {
		return b.clone()
	}
	n := scratchState{}
	for k, v := range a {
		n[k] = v && b[k]
	}
	return n
}

type scratchAnalysis struct {
	e        *Engine
	typ      *types.Named
	methods  map[*ssa.Function]bool
	fields   map[string]bool // scratch fields
	memo     map[string]scratchState
	inProg   map[string]bool
	viol     map[string][]string // field -> descriptions
	curEntry string
}

func recvNamed(fn *ssa.Function) *types.Named {
	if fn.Signature.Recv() == nil {
		if fn.Parent() != nil {
			return recvNamed(fn.Parent())
		}
		return nil
	}
	t := fn.Signature.Recv().Type()
	if p, ok := t.(*types.Pointer); ok {
		t = p.Elem()
	}
	n, _ := types.Unalias(t).(*types.Named)
	return n
}

// fieldOf reports the direct field of the receiver addressed by v (FieldAddr(recv, f)).
func (a *scratchAnalysis) fieldOf(v ssa.Value, recv ssa.Value) (string, bool) {
	fa, ok := v.(*ssa.FieldAddr)
	if !ok || fa.X != recv {
		return "", false
	}
	st, ok := fa.X.Type().Underlying().(*types.Pointer).Elem().Underlying().(*types.Struct)
	if !ok {
		return "", false
	}
	return st.Field(fa.Field).Name(), true
}

func isResetLoad(u *ssa.UnOp) bool {
	// c.f = c.f[:0]  — the load feeds only a zero-length reslice
	refs := u.Referrers()
	if refs == nil || len(*refs) == 0 {
		return false
	}
	for _, r := range *refs {
		sl, ok := r.(*ssa.Slice)
		if !ok {
			if _, isDbg := r.(*ssa.DebugRef); isDbg {
				continue
			}
			return false
		}
		c, ok := sl.High.(*ssa.Const)
		if !ok || c.Value == nil || c.Int64() != 0 {
			return false
		}
	}
	return true
}

func (a *scratchAnalysis) flow(fn *ssa.Function, recv ssa.Value, in scratchState, onlyTrueReturns bool) scratchState {
	if len(fn.Blocks) == 0 {
		return in
	}
	mk := funcKey(fn) + "|" + in.key() + fmt.Sprint(onlyTrueReturns)
	if out, ok := a.memo[mk]; ok {
		return out
	}
	if a.inProg[mk] {
		return in
	}
	a.inProg[mk] = true
	defer delete(a.inProg, mk)
	blockIn := map[*ssa.BasicBlock]scratchState{fn.Blocks[0]: in.clone()}
	blockOut := map[*ssa.BasicBlock]scratchState{}
	var out scratchState
	work := []*ssa.BasicBlock{fn.Blocks[0]}
	iter := 0
	for len(work) > 0 && iter < 10000 {
		iter++
		b := work[0]
		work = work[1:]
		st := blockIn[b].clone()
		for _, ins := range b.Instrs {
			a.transfer(fn, recv, ins, st)
		}
		if old, ok := blockOut[b]; ok && old.key() == st.key() {
			continue
		}
		blockOut[b] = st
		for _, s := range b.Succs {
			var n scratchState
			if cur, ok := blockIn[s]; ok {
				n = meetState(cur, st)
				if n.key() == cur.key() {
					if _, done := blockOut[s]; done {
						continue
					}
				}
			} else {
				n = st.clone()
			}
			blockIn[s] = n
			work = append(work, s)
		}
	}
	for _, b := range fn.Blocks {
		st, ok := blockOut[b]
		if !ok || len(b.Instrs) == 0 {
			continue
		}
		if r, ok := b.Instrs[len(b.Instrs)-1].(*ssa.Return); ok {
			if onlyTrueReturns && len(r.Results) == 1 {
				if c, ok := r.Results[0].(*ssa.Const); ok && c.Value != nil && c.Value.String() == "false" {
					continue
				}
			}
			out = meetState(out, st)
		}
	}
	if out == nil {
		out = in.clone()
	}
	a.memo[mk] = out
	return out
}

func (a *scratchAnalysis) note(fn *ssa.Function, field string, ins ssa.Instruction, what string) {
	p := a.e.prog.Fset.Position(ins.Pos())
	d := fmt.Sprintf("%s: %s of %s in %s without a reset since the epoch began (%s:%d)", a.curEntry, what, field, funcKey(fn), strings.TrimPrefix(p.Filename, a.e.repo+"/"), p.Line)
	for _, x := range a.viol[field] {
		if x == d {
			return
		}
	}
	a.viol[field] = append(a.viol[field], d)
}

func (a *scratchAnalysis) transfer(fn *ssa.Function, recv ssa.Value, ins ssa.Instruction, st scratchState) {
	switch ins := ins.(type) {
	case *ssa.Store:
		if f, ok := a.fieldOf(ins.Addr, recv); ok && a.fields[f] {
			st[f] = true
		}
	case *ssa.UnOp:
		if f, ok := a.fieldOf(ins.X, recv); ok && a.fields[f] {
			if !st[f] && !isResetLoad(ins) {
				a.note(fn, f, ins, "read")
			}
		}
	case *ssa.MakeClosure:
		cl := ins.Fn.(*ssa.Function)
		for i, b := range ins.Bindings {
			if b == recv || isCellOf(b, recv) {
				// analysed where it is created: it may run at any later time in this epoch
				var inner ssa.Value = cl.FreeVars[i]
				a.flowClosure(cl, inner, b != recv, st.clone())
			}
		}
	case ssa.CallInstruction:
		c := ins.Common()
		callee := c.StaticCallee()
		// address of a scratch field passed to a call
		for i, arg := range c.Args {
			if f, ok := a.fieldOf(arg, recv); ok && a.fields[f] {
				name := ""
				if callee != nil {
					name = callee.Name()
				}
				if i == 0 && (name == "Clear" || name == "Reset") {
					st[f] = true
				} else if !st[f] {
					a.note(fn, f, ins, "use (call "+name+")")
				}
			}
		}
		if callee != nil && a.methods[callee] && len(c.Args) > 0 && c.Args[0] == recv && len(callee.Params) > 0 {
			out := a.flow(callee, callee.Params[0], st, false)
			for k := range st {
				st[k] = out[k]
			}
		}
	}
}

// isCellOf: v is the Alloc cell that holds recv (closures capture variables by reference)
func isCellOf(v ssa.Value, recv ssa.Value) bool {
	al, ok := v.(*ssa.Alloc)
	if !ok || al.Referrers() == nil {
		return false
	}
	for _, r := range *al.Referrers() {
		if st, ok := r.(*ssa.Store); ok && st.Addr == ssa.Value(al) && st.Val == recv {
			return true
		}
	}
	return false
}

func (a *scratchAnalysis) flowClosure(cl *ssa.Function, fv ssa.Value, viaCell bool, st scratchState) {
	if !viaCell {
		a.flow(cl, fv, st, false)
		return
	}
	// the receiver is loaded from the captured cell: every load of the cell is the receiver
	for _, b := range cl.Blocks {
		for _, ins := range b.Instrs {
			if u, ok := ins.(*ssa.UnOp); ok && u.X == fv {
				a.flow(cl, u, st, false)
				return
			}
		}
	}
}

func init() {
	registerHook("C03", scratchHook)
	// the same discipline is what makes a checker's diagnostics for one function independent of the functions analysed
	// before it in the same file (C13: reordering and padding declarations)
	registerHook("C13", scratchHook)
}

func scratchHook(c *checkCtx) {
	{
		e := c.e
		// group methods by receiver type
		byType := map[*types.Named][]*ssa.Function{}
		for _, k := range e.sortedFuncKeys() {
			fn := e.funcs[k]
			if !strings.HasPrefix(k, "checkers.") || fn.Parent() != nil {
				continue
			}
			if n := recvNamed(fn); n != nil {
				byType[n] = append(byType[n], fn)
			}
		}
		// entry methods = the methods of the visitor interfaces of package astwalk (what the walkers call)
		entryNames := map[string]bool{}
		if ap := e.byPkg[repoMod+"/checkers/internal/astwalk"]; ap != nil && ap.Types != nil {
			sc := ap.Types.Scope()
			for _, nm := range sc.Names() {
				if tn, ok := sc.Lookup(nm).(*types.TypeName); ok {
					if it, ok := tn.Type().Underlying().(*types.Interface); ok {
						for i := 0; i < it.NumMethods(); i++ {
							entryNames[it.Method(i).Name()] = true
						}
					}
				}
			}
		}
		delete(entryNames, "EnterFile")
		delete(entryNames, "EnterFunc")
		delete(entryNames, "skipChilds")
		var names []*types.Named
		for n := range byType {
			names = append(names, n)
		}
		sort.Slice(names, func(i, j int) bool { return names[i].Obj().Name() < names[j].Obj().Name() })
		nTypes, nFields := 0, 0
		for _, n := range names {
			st, ok := n.Underlying().(*types.Struct)
			if !ok {
				continue
			}
			a := &scratchAnalysis{e: e, typ: n, methods: map[*ssa.Function]bool{}, fields: map[string]bool{}, memo: map[string]scratchState{}, inProg: map[string]bool{}, viol: map[string][]string{}}
			byName := map[string]*ssa.Function{}
			for _, m := range byType[n] {
				a.methods[m] = true
				byName[m.Name()] = m
			}
			// scratch fields: written by a method (not by the constructor closure)
			var visitFn func(fn *ssa.Function)
			visitFn = func(fn *ssa.Function) {
				if len(fn.Params) == 0 && len(fn.FreeVars) == 0 {
					return
				}
				for _, b := range fn.Blocks {
					for _, ins := range b.Instrs {
						var addr ssa.Value
						switch ins := ins.(type) {
						case *ssa.Store:
							addr = ins.Addr
						case *ssa.MapUpdate:
							// c.f[k] = v on a map-typed field
							if u, ok := ins.Map.(*ssa.UnOp); ok {
								addr = u.X
							}
						case ssa.CallInstruction:
							// the field's address is handed to a method (pointer receiver): it may be mutated
							if len(ins.Common().Args) > 0 && !ins.Common().IsInvoke() {
								addr = ins.Common().Args[0]
							}
						}
						if fa, ok := addr.(*ssa.FieldAddr); ok {
							if pt, ok := fa.X.Type().Underlying().(*types.Pointer); ok && types.Identical(pt.Elem(), n) {
								f := st.Field(fa.Field)
								if !f.Embedded() {
									a.fields[f.Name()] = true
								}
							}
						}
					}
				}
				for _, an := range fn.AnonFuncs {
					visitFn(an)
				}
			}
			for _, m := range byType[n] {
				visitFn(m)
			}
			if len(a.fields) == 0 {
				continue
			}
			nTypes++
			all := scratchState{}
			for f := range a.fields {
				all[f] = false
			}
			recvOf := func(fn *ssa.Function) ssa.Value {
				if len(fn.Params) > 0 {
					return fn.Params[0]
				}
				return nil
			}
			run := func(name string, in scratchState, onlyTrue bool) scratchState {
				fn := byName[name]
				if fn == nil || recvOf(fn) == nil {
					return in
				}
				a.curEntry = "entry " + name
				return a.flow(fn, recvOf(fn), in, onlyTrue)
			}
			var s scratchState
			if byName["WalkFile"] != nil {
				s = run("WalkFile", all.clone(), false)
			} else {
				s = run("EnterFile", all.clone(), true)
				s = run("EnterFunc", s, true)
			}
			var ms []string
			for name := range byName {
				ms = append(ms, name)
			}
			sort.Strings(ms)
			for _, name := range ms {
				if entryNames[name] {
					run(name, s.clone(), false)
				}
			}
			var fs []string
			for f := range a.fields {
				fs = append(fs, f)
			}
			sort.Strings(fs)
			for _, f := range fs {
				nFields++
				c.direct = append(c.direct, &directResult{
					Name:   fmt.Sprintf("checkers.(%s).%s/scratch/reset-before-read", n.Obj().Name(), f),
					OK:     len(a.viol[f]) == 0,
					Detail: strings.Join(a.viol[f], "\n"),
				})
			}
		}
		c.extraEv["scratch_state"] = map[string]interface{}{"checker_types_with_scratch_fields": nTypes, "scratch_fields": nFields,
			"decided_by": "exhaustive forward data-flow over the SSA of the type's methods (definite re-initialisation before read); no solver"}
	}
}
