#!/bin/bash
# usage: tools/run_harmless.sh <dir with */patch.diff> [parallelism]
# Must-stay-silent corpus: behaviour-preserving refactorings. Each patch is applied to a scratch copy of /repo and ALL quick
# checks are run on the copy; every VIOLATION is a false alarm of the machinery and is printed. Never changes /repo.
cd "$(dirname "$0")/.."
export GOFLAGS=-mod=mod GOPROXY=off GOSUMDB=off GOTOOLCHAIN=local
dir="$1"; par="${2:-3}"
props=$(python3 -c "import json;print(' '.join(c['property_id'] for c in json.load(open('MANIFEST.json'))['checks']))")
[ -n "${HARMLESS_PROPS:-}" ] && props="$HARMLESS_PROPS"
one() {
  d="$(cd "$1" && pwd)"; name=$(basename $(dirname $d))-$(basename $d)
  r=/var/tmp/harmless.$$.$name; rm -rf $r; cp -r /repo $r
  if ! (cd $r && git apply "$d/patch.diff" >/dev/null 2>&1); then echo "$name: PATCH-DOES-NOT-APPLY"; rm -rf $r; return; fi
  alarms=""
  for p in $PROPS; do
    out=$(VERIF_REPO=$r ${GOVC:-bin/govc} check $p quick 2>&1); rc=$?
    n=$(echo "$out" | grep -c '^VIOLATION')
    if [ $rc -ge 2 ]; then alarms="$alarms $p(engine-error)"; fi
    if [ $n -gt 0 ]; then alarms="$alarms $p($n: $(echo "$out" | grep '^VIOLATION' | head -1 | sed 's/.*obligation=//' | cut -c1-120))"; fi
  done
  if [ -n "$alarms" ]; then echo "$name: FALSE-ALARM$alarms"; else echo "$name: silent"; fi
  rm -rf $r
}
export -f one; export PROPS="$props"
ls -d $dir/*/ | sed 's|/$||' | while read d; do [ -f $d/patch.diff ] && echo $d; done | xargs -P $par -I{} bash -c 'one {}'
git checkout -- evidence 2>/dev/null
