#!/usr/bin/env python3
# Prints the table of DESIGN.md section 0.1 from the evidence files of the last run (nothing is executed).
import json, glob, os
rows = []
for f in sorted(glob.glob(os.path.join(os.path.dirname(__file__), '..', 'evidence', 'C*.json'))):
    d = json.load(open(f))
    c = d['coverage']
    und = c.get('undecided_not_claimed')
    und = len(und) if isinstance(und, list) else (und or 0)
    kf = c.get('known_findings')
    kf = len(kf) if isinstance(kf, list) else (kf or 0)
    by = ', '.join(f"{k}: {v}" for k, v in sorted(c.get('by_solver', {}).items()))
    rows.append(f"| {d['property_id']} | {c['discharged']}{' (+%d known finding%s)' % (kf, 's' if kf != 1 else '') if kf else ''} | {by} | {und} | {d.get('wall_s', 0):.0f} s |")
print("| id | obligations discharged | by back end | undecided, not claimed | wall |")
print("|---|---|---|---|---|")
print("\n".join(rows))
