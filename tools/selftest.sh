#!/bin/bash
# usage: tools/selftest.sh <property-id>
# Must-fail corpus: every recorded seeded change that this property's check is expected to detect (meta.json: the seed's own
# property, or a property listed under "also") is applied to a scratch copy of /repo, the quick check is run on the copy and
# must report a VIOLATION (meta.json "detected_by", when present, names the checks that are expected to - a few seeds are
# detected by a neighbouring property's check only). Prints one line per seed; never changes /repo. A miss is reported, not turned into a failure of
# the check of the unchanged tree.
cd "$(dirname "$0")/.."
export GOFLAGS=-mod=mod GOPROXY=off GOSUMDB=off GOTOOLCHAIN=local
id="$1"; miss=0; n=0
for SD in seeded seeded2 seeded3 seeded4 seeded5 seeded6 seeded7; do
  [ -d $SD ] || continue
  for d in $SD/*/; do
    d=${d%/}; [ -f $d/meta.json ] || continue
    expect=$(python3 -c "
import json
m=json.load(open('$d/meta.json'))
ps=m.get('detected_by') or ([m['property']]+m.get('also',[]))
print('yes' if '$id' in ps and not m.get('not_detected') else 'no')")
    [ "$expect" = yes ] || continue
    out=$(SEED_DIR=$SD SELFTEST_ONLY=$id tools/run_seeds.sh $(basename $d) 2>&1 | tail -1)
    n=$((n+1))
    case "$out" in
      *"CAUGHT by"*"$id("*) echo "SELFTEST-OK $SD/$(basename $d): detected by $id" ;;
      *) echo "SELFTEST-MISSED $SD/$(basename $d): $out"; miss=$((miss+1)) ;;
    esac
  done
done
echo "selftest property=$id seeds=$n missed=$miss"
