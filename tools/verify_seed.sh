#!/bin/bash
# usage: tools/verify_seed.sh <seed-out-dir e.g. /tmp/seed/C06.out/1> <dest e.g. /verif/seeded/C06-1>
# Confirms independently that a seeded change (a) applies to the pinned commit, (b) builds, (c) passes the
# existing suite, (d) makes its demonstration fail while the clean tree passes it. Copies it to <dest>.
set -u
src="$1"; dest="$2"
export GOFLAGS=-mod=mod GOPROXY=off GOSUMDB=off GOTOOLCHAIN=local GOMODCACHE=/root/go/pkg/mod
wt=/var/tmp/seedverify.$$; tmp=/var/tmp/seedverify.$$.tmp
mkdir -p "$tmp"; export TMPDIR="$tmp"
trap 'git -C /repo worktree remove --force "$wt" >/dev/null 2>&1; rm -rf "$tmp" "$wt"' EXIT
git -C /repo worktree add -q --detach "$wt" "${SEED_BASE:-472b02f}" || exit 2
cd "$wt"
demo_dir=$(python3 -c "import json;print(json.load(open('$src/meta.json'))['demo_dir'])")
demo_cmd=$(python3 -c "import json;print(json.load(open('$src/meta.json'))['demo_cmd'])")
res="{}"
say() { echo "[$(basename $(dirname $src))-$(basename $src)] $*"; }
# clean tree + demo
cp "$src/demo_test.go" "$demo_dir/zz_seed_demo_test.go"
clean_out=$(eval "$demo_cmd" 2>&1); clean_rc=$?
git apply "$src/patch.diff" || { say "patch does not apply"; exit 1; }
go build ./... || { say "build fails"; exit 1; }
mut_out=$(eval "$demo_cmd" 2>&1); mut_rc=$?
rm -f "$demo_dir/zz_seed_demo_test.go"
suite_out=$(go test -vet=off -count=1 -timeout 25m ./... 2>&1); suite_rc=$?
say "demo clean rc=$clean_rc mutated rc=$mut_rc suite rc=$suite_rc"
if [ $clean_rc -eq 0 ] && [ $mut_rc -ne 0 ] && [ $suite_rc -eq 0 ]; then
  mkdir -p "$dest"
  cp "$src/patch.diff" "$src/demo_test.go" "$dest/"
  python3 - "$src/meta.json" "$dest/meta.json" <<PY
import json,sys
m=json.load(open(sys.argv[1]))
m["confirmed"]={"by":"tools/verify_seed.sh on a scratch worktree of commit ${SEED_BASE:-472b02f}","build":"ok","existing_suite":"pass (go test -vet=off -count=1 ./...)","demo_on_clean_tree":"pass","demo_with_change":"fail"}
json.dump(m,open(sys.argv[2],"w"),indent=1)
PY
  say "CONFIRMED -> $dest"
else
  say "NOT confirmed"; echo "$clean_out" | tail -5; echo "$mut_out" | tail -5; echo "$suite_out" | grep -v "^ok\|no test files" | tail -10
  exit 1
fi
