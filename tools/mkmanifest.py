#!/usr/bin/env python3
"""Regenerates /verif/MANIFEST.json from the table below (kept in one place so it stays valid)."""
import json, os, subprocess
HERE = os.path.dirname(os.path.dirname(os.path.abspath(__file__)))

TRUST = ("Trusted: the VC generator govc (go/ssa -> SMT-LIB), go/ssa, the solvers z3 4.8.12 / z3 5.1.0 / cvc5 1.0.3, "
         "the assumed contracts of dependencies in /verif/theories, mathematical integers, no interpretation of goroutines. "
         "Each evidence file lists the assumptions its obligations actually used.")

CLAIMED = {
 "C15": dict(
   text="Deductive proof, for all inputs, of the contracts of GoVersion.GreaterOrEqual (numeric lexicographic compare, zero value = newest) and "
        "ParseGoVersion ('', 'go' => zero value; 'M.N' / 'goM.N' decimal => {M,N}; anything else => error). "
        "Obligations are generated from the SSA of the current tree and discharged by SMT solvers.",
   design="§7 C15", technique="contract-based deductive verification (WP over go/ssa, SMT)"),
}

CLAIMED.update({
 "C06": dict(
   text="Deductive proof that the three implementations of checker selection (cmd/go-critic and cmd/gocritic initCheckers, analyzer filterCheckersList, "
        "with their closures parseKeys / splitValues / enabledByTag / disabledByTag) compute exactly the set given by the property's formula "
        "(enable-all or name/tag listed in enable, and neither name nor tag listed in disable), keep registry order, never construct an unselected checker, "
        "return an error for an empty selection, and do not write their inputs. Unbounded lists, tags and strings; loop invariants are proved. "
        "The documentation clause (README/overview tables) is not decided.",
   design="§7 C06", technique="contract-based deductive verification (loop invariants, quantified postconditions, frames; SMT)"),
 "C16": dict(
   text="Deductive proof of the command-line helpers: exit() exits with the configured code iff issues were found, addTrailingSlash, and shortenLocation "
        "(the printed location expands back to the real path for all clean absolute paths and roots; native SMT string theory). "
        "A defect in shortenLocation was found by a solver model, replayed on the real code and fixed.",
   design="§7 C16", technique="contract-based deductive verification (SMT strings), model replay via go test -overlay"),
 "C19": dict(
   text="Deductive proof that configuration errors fail cleanly: ParseGoVersion accepts exactly the valid strings, SetGoVersion is only called with a parsable "
        "version (CLI loadProgram), the analyzer never dereferences a missing configuration for any state of its init-error latch, createCheckers and "
        "initCheckers never return a partially initialised checker set. Two panics were found, demonstrated on the real code and fixed.",
   design="§7 C19", technique="contract-based deductive verification (call-site preconditions, nil-safety obligations; SMT)"),
})

CLAIMED.update({
 "C14": dict(
   text="Deductive proof that parameter values reach the checkers unchanged and that thresholds are exact: CheckerParams.Int/Bool/String return the registered value; "
        "each of the 12 parameterised constructors stores exactly info.Params[<name>].Value into the checker field; CLI assignCheckerParams and analyzer newGocritic write "
        "the flag cell of key '@'+name+'.'+param into that parameter (per-iteration postconditions over the map range); getCheckersInfo shares the Params map with the prototype; "
        "every registration site registers parameter cells it allocated itself (no sharing between checkers); the decision sites of hugeParam, rangeValCopy, rangeExprCopy, "
        "tooManyResults and nestingReduce warn exactly when the measured quantity is at the documented side of the threshold, and the size quoted is SizesInfo.Sizeof of that type "
        "(SizeOf returns it whenever it reports ok). Monotonicity follows from the >= / > form of these postconditions. ifElseChain's chain counting and commentedOutCode's length guard are not yet under contract.",
   design="§7 C14", technique="contract-based deductive verification (ghost event log for emitted warnings, loop-body postconditions; SMT)"),
})

CLAIMED["C16"]["text"]=("Deductive proof of the command-line contract: exit() exits with the configured code iff issues were found; checkFile prints exactly one line per warning "
   "with (location, checker name, text) taken from that warning, sets foundIssues iff it printed and never resets it; checkPackage checks a file iff it is not filtered "
   "(_test.go with test checking off, generated header with generated checking off) and runCheckers checks every loaded package; isGenerated/getFilename/addTrailingSlash/shortenLocation "
   "meet their functional contracts (printed location expands back to the real path; native SMT strings). A defect in shortenLocation was found by a solver model, replayed on the real code and fixed.")
CLAIMED.update({
 "C08": dict(
   text="Deductive proof of the analyzer side of front-end agreement: asDiag turns a warning into exactly the diagnostic 'name: text' at the same position and forwards the quick fix unchanged "
        "as one TextEdit (field by field); runAnalyzer converts and reports every warning of every created checker for every file exactly once (per-iteration postconditions), "
        "every file of the pass is analysed by every created checker; the CLI prints the same triple (C16 clauses shared), splits its -enable/-disable values with the same contract as the analyzer "
        "(items are trimmed) and hands exactly the -go flag to the shared context without touching it per package. Selection and parameter agreement are C06/C14. NOT decided: that the analyzer offers every checker the CLI offers "
        "(the registry snapshot is taken before embedded rules are registered - known finding), package loading and test-variant de-duplication.",
   design="§7 C08", technique="contract-based deductive verification (field-level postconditions, ghost event logs; SMT)"),
})

CLAIMED.update({
 "C03": dict(
   text="Deductive proof of history independence by reduction to single-run obligations: Check empties the warning buffer before the walker runs; SetPackageInfo replaces "
        "the whole types.Info and the package; SetFileInfo rebuilds the per-file import tables as fresh maps whenever they are required; the rule-engine run context is built "
        "per file from the current context; and, for every checker type, each field written outside its constructor (18 scratch fields in 12 types) is fully re-initialised "
        "before it is read within its epoch (file / function / node) - the last family is a definite-assignment obligation decided by an exhaustive data-flow over the SSA of the "
        "type's methods, not by a solver. Command-line package order goes through the loader and is not decided.",
   design="§7 C03", technique="contract-based deductive verification (call-site preconditions, freshness postconditions) + generator-decided reset-before-read obligations"),
})
CLAIMED["C15"]["text"]=("Deductive proof, for all inputs, of GoVersion.GreaterOrEqual (numeric lexicographic compare, zero value = newest), ParseGoVersion ('' / 'go' => zero value; "
   "'M.N' / 'goM.N' decimal => {M,N}; exactly the valid strings are accepted), SetGoVersion, and of the hand-over of the target version to the rule engine "
   "(the per-file RunContext carries ctx.GoVersion field by field); octalLiteral suggests the 0o syntax only from go1.13 on; and, on the precompiled rule data, every rule whose "
   "report or suggestion names a standard-library function or method that first appeared after go1.13 (read from GOROOT/api) fires only under a top-level GoVersion().GreaterEqThan filter of at least that version "
   "(generator-decided obligations). What the rule engine does with the version is assumed.")

CLAIMED.update({
 "C01": dict(
   text="Zero-annotation deductive sweep over every function of checkers, checkers/internal/astwalk, checkers/internal/lintutil and linter (about 560 functions): "
        "one obligation per panic-capable SSA instruction (nil dereference, index and slice bounds, unchecked type assertion, division, explicit panic, non-nil receiver/node arguments "
        "of repository calls) generated from the current tree and discharged under the theory ast-valid (what the parser and type checker guarantee, deliberately nothing about "
        "argument counts derived from a callee's spelling; every fact guarded by 'is a node of a parsed tree', so the all-zero sentinel nodes of astcast and hand-built nodes are excluded; "
        "validated against 7 643 real files in the thorough tier) and theory regex-syntax-valid (arity of the regexp parser's operations). About 3900 of about 4110 obligations are proved on the "
        "unchanged tree and recorded in ledger/C01.proved; the check fails when one of them no longer discharges or is replaced by an undischarged one, and when the solvers "
        "REFUTE (model, not timeout) a new safety obligation of a function that the ledger knows and had entirely proved (new functions - extracted helpers - are verified without their callers' context and are not reported). The remaining obligations (listed in the "
        "evidence as undecided_not_claimed) are NOT claimed - an undecided obligation is a place nobody has looked at, two genuine crashes were found exactly there by sub-agents. The sweep relies on "
        "the contracts of other properties at call sites; the postconditions, loop invariants and call-site clauses of those contracts are therefore obligations of this check as well (about 500). "
        "Termination of recursion: every function on a cycle of the static call graph (16 functions) carries a `decreases` measure - astDepth of a syntax node, typeDepth of a type literal "
        "(nothing is assumed about the underlying type of a defined type), rxDepth of a parsed regexp - or a stated reason (3 functions, listed as assumptions); one obligation per recursive call "
        "(34 discharged, 18 about regexp walkers in the frontier). "
        "Termination of loops: every loop of the swept packages is a range over a finite sequence or map, a counting loop towards a loop-invariant bound (decided on the SSA), or carries a `decreases` measure "
        "discharged by the solvers (4 loops; one of them undecided). Recursion through function values and termination of dependencies are not examined.",
   design="§7 C01", technique="contract-based deductive verification, zero-annotation safety sweep with a ledger of proved obligations (SMT)"),
})

CLAIMED.update({
 "C05": dict(
   text="Zero-annotation deductive frame sweep over every function that can run under Checker.Check (checkers, astwalk, lintutil, linter): one obligation per heap write "
        "(store, map update, in-place append, copy, delete) and per call (the callee's frame must fit the caller's): the written location is either freshly allocated by the "
        "function (astcopy results count as fresh) or part of the state owned by the checker - its scratch fields, the contents of its own maps and slices, the warning buffer of its "
        "CheckerContext. Cursor mutators of astutil.Apply require a private (copied) root. TypeOf/SizeOf and the other contract functions are pure. Local slices carried around loops are shown "
        "to stay function-local by candidate invariants (kept when inductive). About 2900 of 2990 obligations are proved on the unchanged tree (ledger/C05.proved); an unproved obligation that is in neither ledger - i.e. a new write whose target is not provably owned or fresh - fails the check. "
        "Writes inside dependencies (go/types laziness, astfmt, the rule engine) are assumed away.",
   design="§7 C05", technique="contract-based deductive verification, zero-annotation frame sweep (assigns / ownership obligations; SMT)"),
})

CLAIMED.update({
 "C04": dict(
   text="Proof of the per-thread SUFFICIENT CONDITIONS for race freedom, not of interleavings: (1) the goroutine body of checkFile writes only its own result slot warnings[i] and "
        "the warning buffer of its own checker (frame obligations), the slots are empty before the spawn, and between `go` and wg.Wait() the parent touches nothing the goroutines may write "
        "(structural obligation on the spawn-to-join window); (2) the checkers of one run are pairwise distinct freshly constructed objects (initCheckers); (3) every access to the "
        "analyzer's process-wide cache (globalGocritic, globalInitErrorReported) happens with the mutex held (ghost lock state, deferred Unlock); (4) every constructor stores only state it "
        "allocated itself into a new checker (parser, engine, maps, slices): no mutable object is shared between checker instances; (5) checkers write only their own state: the zero-annotation frame sweep of C05 (one obligation per heap write and per call, target freshly "
        "allocated or owned by the checker) is discharged under this property as well, with its own ledger (about 2900 obligations proved, 85 undecided and not claimed). That disjoint write sets imply data-race freedom and sequentially consistent results is the standard meta-theorem and is not machine-checked here.",
   design="§7 C04", technique="contract-based deductive verification of frames, ownership and lock discipline (sufficient conditions; SMT)"),
})

CLAIMED.update({
 "C18": dict(
   text="Deductive proof of the dynamic-rules checker's configuration logic: newErrorHandler accepts exactly the non-empty comma-separated items dsl/import/all (any other item is an error) "
        "and builds a well-formed predicate table; failOnParseError(e) is true iff 'all' is listed, or 'import' and e is an import error, or 'dsl' and e is not (range over the table with a "
        "visited-keys ghost, the predicates being verified closures called through function values); the legacy failOnError flag maps to 'all'; the group filter runs a group iff "
        "(enable is <all>, or its name or a tag is enabled) and its name is not disabled and no tag is disabled, with the tag scans verified as separate closures; every disable entry is recorded "
        "as a tag or a name; a pattern that matches no file (or is malformed) ends initialisation with an error; a file counts as loaded only if the engine loaded it, and the engine is installed only if "
        "some file loaded; the failOn policy is applied to the error of each file separately (every read or load error of an iteration that completes is of a class not listed); with no rules the "
        "checker has no engine; an initialisation error returns no checker; the engine is run per file with the current context. What the engine does with loaded files, filepath.Glob and file "
        "contents are outside; the classification of errors into import/dsl is the dependency's.",
   design="§7 C18", technique="contract-based deductive verification (closures, map-range ghost, pure dynamic calls; SMT)"),
})

CLAIMED.update({
 "C17": dict(
   text="PARTIAL. Decided: (a) the shipped rule data corresponds to the rule source - a static comparison of checkers/rules/rules.go (read with go/parser) and checkers/rulesdata/rulesdata.go, "
        "nothing executed: every rule-group function and every m.Match(...) chain of the source has exactly one rule of the same group and line in the data with the same patterns in the same order, "
        "the same report and suggestion templates, location variable and filter source text, and the data has no group without a source (about 560 generator-decided obligations); "
        "(b) every loaded rule group is registered exactly once with a fresh CheckerInfo that copies the group's name, tags, summary, before/after text and note field by field and is marked "
        "EmbeddedRuleguard; the per-checker engine's group filter accepts exactly that group; getCheckersInfo hands out one entry per prototype; the doc sub-command prints one line per registered "
        "checker with its full name; the default value of -enable lists exactly the checkers without the experimental/opinionated/performance/security tag (shared with C06). NOT decided: what the "
        "precompiler makes of helper closures inside filters (filters are compared by source text), and the rendered docs/overview.md (text templates).",
   design="§7 C17", technique="contract-based deductive verification (call-site clauses, per-iteration postconditions; SMT) + generator-decided source/data correspondence"),
})

CLAIMED.update({
 "C13": dict(
   text="Proof of the MECHANISM behind locality, not of the metamorphic experiment on the example files: for the per-declaration walkers (statement, statement-list, expression, "
        "local-expression, function-declaration) every top-level declaration of the file is examined (no early exit), a function declaration is traversed iff the visitor's EnterFunc "
        "accepts it - exactly once and starting from that declaration's own body/node - so the work done for one declaration is decided by that declaration and the visitor alone; every "
        "implementation of EnterFunc accepts only functions with a body; the traversal callbacks visit each matching node once and consume the one-shot SkipChilds flag after every visit; "
        "skipChilds returns and clears the flag; the type-expression walker hands a node to the visitor only through visit(), which consumes the flag (so a flag set by one visit cannot leak into the next "
        "node). Per-function scratch state is reset before use: the reset-before-read data-flow obligations "
        "(every checker field written outside the constructor is re-initialised before it is read within its epoch) are part of this check, and CheckerContext.SizeOf/TypeOf are proved to be pure functions "
        "of the sizes object / type information and their argument (no memo). The example-file clause of the property (re-running curated positive/negative files "
        "under padding and permutation) cannot be executed by contracts and is not decided; comment walkers are not under contract.",
   design="§7 C13", technique="contract-based deductive verification (interface-method contracts, per-iteration postconditions, ghost event logs; SMT)"),
})

CLAIMED.update({
 "C07": dict(
   text="Zero-annotation deductive sweep over all call sites of CheckerContext.Warn / WarnFixable / WarnWithPos / WarnFixableWithPos in package checkers (96 sites): the node that "
        "positions the diagnostic is a non-nil node of the parsed tree or a private copy of one (theory ast-valid: never a node the checker built itself, never the all-zero sentinel that astcast.ToX returns on a type mismatch) - "
        "helpers that position a diagnostic at a parameter assume this of the parameter and every call of such a helper is an obligation (call/<helper>/pre/warn-node-<param>); the format string is a compile-time constant with exactly one verb per argument (decided syntactically; this is what keeps source text from being interpreted "
        "as a format and producing '%!d(MISSING)' artefacts); every formatted node argument is non-nil; an explicit position handed to WarnWithPos / WarnFixableWithPos "
        "is the result of a Pos() method, a token.Pos field of a go/ast node, or a record field / parameter all of whose sources are such values - arithmetic on positions is rejected (decided on the SSA). Plus contracts: the rule-engine reports are forwarded with position and fix unchanged; "
        "the comment-formatting fix covers exactly the comment with a non-inverted range; asDiag forwards position and edit (C08). 334 of 358 obligations proved and recorded in ledger/C07.proved (24 undecided, not claimed); "
        "a new obligation is reported when the solvers refute it in a function the ledger had entirely proved (the constant-format claim: wherever it is refuted). Not covered: positions and ranges computed inside the rule engine; that Pos() of a tree node is a token start (theory ast-valid).",
   design="§7 C07", technique="contract-based deductive verification, Warn-site sweep (call-site obligations; SMT + syntactic decisions on constant formats)"),
})

CLAIMED.update({
 "C02": dict(
   text="Determinism by elimination of its sources, decided on the SSA of the current tree: (1) one obligation per range-over-map loop in the analysis packages and both CLIs - the loop body emits "
        "nothing, stores only into locations keyed by the iteration element or into objects it allocated, and any list it builds is sorted before use - by a total order on the elements (sort.Strings/Ints/Float64s/slices.Sort; a custom comparison only when the function's contract states why it is total) - ; an emission "
        "guarded by equality of the iteration value with a loop-invariant value is accepted under a listed injectivity assumption; (2) no call of clocks, random sources or process identity from "
        "analysis code; (3) no go statement in the analysis packages (the CLI's goroutines are C04: disjoint writes into per-checker slots, printed in slot order by checkFile's contract, C16). "
        "These are finite syntactic obligations decided by the generator itself, not by a solver; byte-identical output of the whole program additionally depends on go/packages, go/types and the rule "
        "engine, which are assumed deterministic. One defect (dupImport reported while ranging over a map) was found this way, demonstrated on the real code and fixed.",
   design="§7 C02", technique="contract-based verification: generator-decided order-independence obligations on every map range + deny-list scan (no solver)"),
})

CLAIMED.update({
 "C20": dict(
   text="Deductive proof for the eleven hand-written API-specific checkers (appendAssign, appendCombine, rangeAppendAll, newDeref, badRegexp, regexpPattern, regexpSimplify, sortSlice, "
        "filepathJoin, exitAfterDefer, flagName): resolvedQualifiedName returns exactly what types.Info resolves the callee to (builtin object, or member of the package a *types.PkgName "
        "imports, named by import path); from the point where the callee is recognised to the Warn call either every function carries the fact `the flagged call resolves to <API>` as a "
        "precondition that its callers discharge, or the single call that enters the analysis is gated by it; a call-graph obligation (decided by the generator) shows that inside each of "
        "these checkers no function reaches a diagnostic except through such a contract. Rule-based checkers: one generator-decided obligation per pattern of the precompiled rule data that "
        "names a standard package - the selected member is spelled out and the package is in the rule engine's own table of standard packages (read from the dependency's source on every run) or "
        "imported by the rule group, which are the conditions under which the engine resolves the qualifier through type information (assumed behaviour of the dependency); a builtin (len, append, copy, ...) "
        "in callee position must be a pattern variable restricted to the predeclared object; a standard function mentioned outside callee position is resolved only if the same qualifier is also the callee's "
        "(four wrapperFunc patterns with `unicode.ToX` as an argument are known findings). Ten spelling-based recognisers and five rule groups that matched user-defined len/append/copy or "
        "variables named maps/slices/cmp were genuine defects and were repaired (fix: commits, see known_findings.txt); three of them were also crash sites under C01.",
   design="§7 C20", technique="contract-based deductive verification (preconditions carried along call chains, gate clauses, SMT) + generator-decided call-graph and rule-pattern obligations"),
})

CLAIMED.update({
 "C12": dict(
   text="Deductive proof that the hand-written checkers make their definite claims only under conditions that imply them: badCond's 'always false' is issued only for `x < a && x > b` with one "
        "side-effect-free operand x written twice and constants a, b such that no value lies below a and above b (the quantified claim is part of lessAndGreater's postcondition and is carried "
        "to the Warn call); nilValReturn's 'always nil' only when the returned expression is the side-effect-free operand compared with the predeclared nil in the condition and the return is "
        "the only statement of the branch; caseOrder's 'must go before' only when the case type implements the interface of a case listed earlier (loop invariant over the list of seen cases) "
        "and never for case nil; dupSubExpr only for one side-effect-free expression written twice, and for the six NaN-sensitive operators of its table only when the operand's underlying type "
        "is not a float or complex basic type (resultIsFloat's postcondition, carried to the Warn call; the table's content is built by a constructor loop and is assumed). "
        "nilValReturn.becomesInterface is carried as an abstraction only (what it computes over grouped result fields is not specified). Rule data: sloppyLen's three claims and offBy1's 'always panics' are proved as SMT lemmas "
        "about the builtin len (non-negative; index in range iff 0 <= i < len), and the rules must restrict the callee to the builtin object, the operand to a pure expression and to slice types "
        "(generator-decided obligations on the precompiled rule data). The semantic bridge (syntactically equal side-effect-free expressions have equal values; constants evaluate to their "
        "values) is theory go-semantics, assumed. Three defects were found and repaired (badCond purity, caseOrder nil, nilValReturn shadowed nil, sloppyLen/offBy1 user-defined len). dupArg and "
        "the remaining rule-based claims are not covered.",
   design="§7 C12", technique="contract-based deductive verification (quantified claims as postconditions / call-site clauses; SMT lemmas over rule data)"),
 "C10": dict(
   text="boolExprSimplify: every row of its rewrite tables is proved to be an equivalence over the integers at the point where it is applied (negated comparisons, a > b || a == b - this table, which has no float guard, also over "
        "reals-or-NaN -, the eight range foldings, the eight +1/-1 shifts handed to `replace`, and that `replace` applies exactly the row it was given), operands are side-effect free and written identically, literal "
        "bounds are read in the base their spelling announces, and none of the integer-only rewrites is applied when the float guard is set; the guard is computed for the very expression "
        "that is simplified next, inspects both operands of every binary sub-expression and counts type parameters as possibly float. Rule data (12 groups that promise an equivalent rewrite): per pattern, an SMT lemma that pattern "
        "and rewrite denote the same value under the stated semantics of strings/bytes Index/Contains/Compare/Join/len and time.Time.Unix*, or a listed definitional identity (Go specification, "
        "documented wrapper definitions); operands are evaluated as often and in the same order unless required pure/constant; type filters that the identity needs (exact string, slice). "
        "Two rewrites are genuinely wrong and recorded as known findings (timeExprSimplify: t.Unix()/1000 is not t.UnixMilli()), one was repaired (stringConcatSimplify operand order), two earlier "
        "(octal literal bounds, +1 shift on floats). NOT covered: underef, unlambda, typeUnparen, newDeref/ZeroValueOf, the statement-level strings.Cut rewrites, integer overflow.",
   design="§7 C10", technique="contract-based deductive verification (quantified equivalence clauses at rewrite sites, closures, ghost scan records; SMT rewrite lemmas over rule data)"),
})

CLAIMED.update({
 "C09": dict(
   text="Rule data (every rule that carries a machine-applicable fix): the fix text parses as Go of the pattern's syntactic category once pattern variables are replaced by identifiers; every variadic "
        "wildcard of the pattern reappears in the fix, so nothing inside the replaced range is silently deleted; and type preservation decided by go/types on a probe package: for every typing of the "
        "pattern variables that the rule's filters allow (exact types for Type.Is, the type and a defined type over it for Underlying().Is, witness types for Implements; for unconstrained variables "
        "every type of a 13-element candidate list under which the pattern type-checks - that part is BOUNDED) the fix type-checks and has the pattern's type up to default types; "
        "compound operands keep their grouping (for every admissible type a unary and a binary witness expression is substituted textually into pattern and fix, the syntax trees are compared modulo parentheses and the "
        "regrouped text is type-checked); the fix can stand where the match stood (it is placed into every tighter context - index, slice, selector, unary, binary operand - in which the matched expression type-checks, "
        "unless the rule excludes that parent kind); the fix names only packages the matched code names or the rule requires the file to import; statements matched by the pattern that declare a variable are not "
        "replaced by a fix that no longer declares it. Hand-written: paramTypeCombine merges two parameters only when their type expressions are syntactically equal; underef keeps the parentheses of unary operands; the "
        "comment-formatting fix covers exactly the comment, inserts one space, yields a comment that no longer warns and owns its bytes (contract, SMT); the analyzer forwards a fix as one TextEdit "
        "unchanged (C08). Defects found and repaired: strings.Cut fixes deleted the statements matched by $*_ and contained the placeholder `{ ... }`; preferStringWriter's fix did not compile "
        "for []byte operands; redundantSprint/preferStringWriter/stringConcatSimplify fixes regrouped operands; dynamicFmtString/stringXbytes/httpNoBody/preferFilepathJoin fixes named packages the file may not import. NOT covered: the ~20 hand-written checkers that quote replacement code in messages (go/printer output is not parsed), applying a fix and re-analysing the file.",
   design="§7 C09", technique="rule-data obligations decided by the generator and by go/types (no solver) + contract on the comment-formatting fix (SMT)"),
})


# sentences appended to the texts above (later rounds)
ADDENDA = {
 "C08": " The two commands cmd/go-critic and cmd/gocritic are byte-identical sources, i.e. the same program (one generator-decided obligation per file).",
 "C16": " parseArgs accepts only exit codes a shell can tell from success (1..255) and at least one worker; a file is generated when a comment group of its header (before the package clause, possibly after a license text or build constraint) carries the marker; a file is classified by its own name, not by a //line directive.",
 "C18": " The failure policy is validated even when no rules are given; the legacy failOnError flag adds `all` to whatever failOn lists.",
 "C19": " The analyzer rejects an empty checker selection like the command does; Go version parts are unsigned decimals and the major version is at least 1.",
 "C14": " SizeOf answers for instantiated generic types (only uninstantiated generics and type parameters have no size); rangeExprCopy looks through type aliases.",
 "C15": " The user-rules checker hands the target version to the rule engine like the embedded-rules checker does.",
}
for _k, _v in ADDENDA.items():
    CLAIMED[_k]["text"] += _v

NA_REASON_PENDING = "check not built yet in this round (planned, DESIGN §7); not claimed until its obligations discharge"
NOT_APPLICABLE = {
 "C11": "no contract within reach can state equality of Go-regexp match behaviour between a pattern and the string printed from a third-party parse tree (DESIGN §8)",
}

def main():
    props = [json.loads(l)["id"] for l in open(os.path.join(HERE, "properties.jsonl"))]
    checks = []
    for pid in props:
        if pid not in CLAIMED:
            continue
        c = CLAIMED[pid]
        checks.append({
            "property_id": pid,
            "quick_cmd": f"./check {pid} quick",
            "thorough_cmd": f"./check {pid} thorough",
            "evidence_file": f"/verif/evidence/{pid}.json",
            "replay_cmd_template": f"./check {pid} --replay {{path}}",
            "engine": "govc",
            "level_claimed": {"category": "proof", "text": c["text"], "design_ref": c["design"]},
            "level_note": c.get("note", TRUST),
            "technique": c["technique"],
        })
    na = []
    for pid in props:
        if pid in CLAIMED:
            continue
        na.append({"property_id": pid, "reason": NOT_APPLICABLE.get(pid, NA_REASON_PENDING)})
    hooks_commits = []
    try:
        out = subprocess.run(["git", "-C", "/repo", "log", "--format=%H %s"], capture_output=True, text=True).stdout
        for line in out.splitlines():
            h, _, subj = line.partition(" ")
            if subj.startswith("verif:"):
                hooks_commits.append(h)
    except Exception:
        pass
    m = {
        "version": 1,
        "setup_cmd": "cd /verif/govc && export GOFLAGS=-mod=mod GOPROXY=off GOSUMDB=off GOTOOLCHAIN=local && cp -f /repo/go.sum go.sum && go build -o ../bin/govc .",
        "hooks": {
            "guard": "verif",
            "enable": "go build -tags verif ./... (the tag only adds comment-only contract files zz_contracts_verif.go; govc loads the packages with -tags=verif)",
            "baseline_off_cmd": "cd /repo && go test -vet=off -count=1 -timeout 25m ./...",
            "source_commits": hooks_commits,
            "add_only": True,
        },
        "engines": [{
            "name": "govc", "path": "/verif/govc",
            "serves_properties": sorted(CLAIMED),
            "kind_free_text": "self-written verification-condition generator for Go: weakest-precondition style symbolic execution over go/ssa of /repo's current tree, //@ contracts in build-tagged comment files, obligations discharged by z3/cvc5",
        }],
        "checks": checks,
        "not_applicable": na,
        "notes": "See DESIGN.md. Known genuine defects are listed in known_findings.txt.",
    }
    json.dump(m, open(os.path.join(HERE, "MANIFEST.json"), "w"), indent=1)
    print("wrote MANIFEST.json:", len(checks), "checks,", len(na), "not applicable")

main()
