#!/bin/bash
# usage: tools/run_seeds.sh [seed-name ...]   (default: all under /verif/seeded)
# Applies each confirmed seeded change to a scratch copy of /repo (current HEAD incl. fixes and contracts),
# runs the quick check of the property it breaks (and any extra properties given in meta.json "also"),
# and reports whether a VIOLATION was raised.
cd "$(dirname "$0")/.."
export GOFLAGS=-mod=mod GOPROXY=off GOSUMDB=off GOTOOLCHAIN=local
SD="${SEED_DIR:-seeded}"; seeds=("$@"); [ ${#seeds[@]} -eq 0 ] && seeds=($(ls $SD | grep -v '\.md$'))
for s in "${seeds[@]}"; do
  d=$SD/$s; [ -f $d/patch.diff ] || continue
  prop=$(python3 -c "import json;print(json.load(open('$d/meta.json'))['property'])")
  props="$prop $(python3 -c "import json;print(' '.join(json.load(open('$d/meta.json')).get('also',[])))")"
  [ -n "${SELFTEST_ONLY:-}" ] && props="$SELFTEST_ONLY"
  r=/var/tmp/seedrun.$$; rm -rf $r; cp -r /repo $r; git -C $r update-index -q --refresh
  if [ -f $d/rebased.diff ] && grep -q '^+++ b/checkers/rules/rules.go' $d/rebased.diff; then
    (cd $r && git apply $OLDPWD/$d/rebased.diff >/dev/null 2>&1) || { echo "$s: REBASED-PATCH-DOES-NOT-APPLY"; rm -rf $r; continue; }
    (cd $r/checkers && GOMODCACHE=/root/go/pkg/mod go run ./rules/precompile.go -rules ./rules/rules.go -o ./rulesdata/rulesdata.go >/dev/null 2>&1) || { echo "$s: REGENERATION-FAILED"; rm -rf $r; continue; }
  elif grep -q '^+++ b/checkers/rules/rules.go' $d/patch.diff; then
    # the precompiled rule data changed since the seed was recorded: apply the change to the rule source and regenerate
    # the data with the project's own generator (what the seed's author did as well)
    if ! (cd $r && git apply --3way --exclude=checkers/rulesdata/rulesdata.go $OLDPWD/$d/patch.diff >/dev/null 2>&1); then
      echo "$s: PATCH-DOES-NOT-APPLY to current HEAD"; rm -rf $r; continue
    fi
    if [ "$prop" != "C17" ]; then   # a C17 seed is about data that no longer matches its source: leave the data as it is
    (cd $r/checkers && GOMODCACHE=/root/go/pkg/mod go run ./rules/precompile.go -rules ./rules/rules.go -o ./rulesdata/rulesdata.go >/dev/null 2>&1) || { echo "$s: REGENERATION-FAILED"; rm -rf $r; continue; }
    fi
  elif [ -f $d/rebased.diff ]; then
    (cd $r && git apply $OLDPWD/$d/rebased.diff >/dev/null 2>&1) || { echo "$s: REBASED-PATCH-DOES-NOT-APPLY"; rm -rf $r; continue; }
  elif ! (cd $r && git apply --3way $OLDPWD/$d/patch.diff >/dev/null 2>&1 || git apply $OLDPWD/$d/patch.diff >/dev/null 2>&1); then
    echo "$s: PATCH-DOES-NOT-APPLY to current HEAD"; rm -rf $r; continue
  fi
  caught=""
  for p in $props; do
    grep -q "\"property_id\": \"$p\"" MANIFEST.json || continue
    out=$(VERIF_REPO=$r ${GOVC:-bin/govc} check $p quick 2>&1); rc=$?
    n=$(echo "$out" | grep -c '^VIOLATION')
    if [ $rc -ne 0 ] && [ $rc -ne 1 ]; then echo "$s: ENGINE-ERROR on $p (exit $rc): $(echo "$out" | tail -1 | cut -c1-160)"; fi
    if [ $n -gt 0 ]; then caught="$caught $p($n)"; first=$(echo "$out" | grep '^VIOLATION' | head -1 | sed 's/.*obligation=//' | cut -c1-110); fi
  done
  if [ -n "$caught" ]; then echo "$s: CAUGHT by$caught  e.g. $first"; else echo "$s: MISSED (checked: $props)"; fi
  rm -rf $r
done
# evidence files were rewritten against scratch copies: restore them from the real tree
[ -n "${SELFTEST_ONLY:-}" ] || git checkout -- evidence 2>/dev/null
