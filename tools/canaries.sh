#!/bin/bash
# runs the witnesses of the known findings against the real code of /repo (R1 replay via go test -overlay)
cd "$(dirname "$0")/.."
export GOFLAGS=-mod=mod GOPROXY=off GOSUMDB=off GOTOOLCHAIN=local
repo="${VERIF_REPO:-/repo}"
d=$(mktemp -d /var/tmp/verif-canary.XXXX); trap 'rm -rf $d' EXIT
cp replay/canary_test.go.txt $d/canary_test.go
echo "{\"Replace\": {\"$repo/checkers/zz_verif_canary_test.go\": \"$d/canary_test.go\"}}" > $d/ov.json
(cd $repo && VERIF_CANARIES=/verif/replay/canaries.txt go test -overlay $d/ov.json -vet=off -count=1 -timeout 120s -run '^TestVerifCanaries$' -v ./checkers 2>&1 | grep "^CANARY\|FAIL\|panic:" )
